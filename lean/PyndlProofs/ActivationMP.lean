/-
  PyndlProofs.ActivationMP — the multi-process path of `activation()` computes
  the single-process matrix for every completion order of the tasks.
-/
import PyndlModel.ActivationMP
import PyndlProofs.Activation
import Mathlib.Data.List.Nodup
import Mathlib.Data.List.Perm.Basic

set_option linter.unusedSectionVars false
set_option linter.unusedSimpArgs false
set_option linter.unusedVariables false

namespace Pyndl
open List

section
variable {R : Type} [Add R] [Zero R]

/-! ## the parent's part: the index tuples -/

/-- the single-process path computes `actColumn` of exactly the index tuples
    the parent hands to the pool, and raises what the parent raises -/
theorem activationMatrix_eq_indexLists (p : DupPolicy) (ig : Bool) (w : LW R) (evs : List (List String)) :
    activationMatrix p ig w evs =
      match actIndexLists p ig w.cues evs with
      | .error e => .error e
      | .ok tasks => .ok (tasks.map (actColumn w)) := by
  induction evs with
  | nil => rfl
  | cons c rest ih =>
    simp only [activationMatrix, actIndexLists]
    cases h1 : actCues p c with
    | error e => rfl
    | ok cs =>
      simp only []
      cases h2 : cueIndices ig w.cues cs with
      | error e => rfl
      | ok idx =>
        simp only [ih]
        cases h3 : actIndexLists p ig w.cues rest with
        | error e => rfl
        | ok r => simp

theorem actIndexLists_length (p : DupPolicy) (ig : Bool) (labels : List String) (evs : List (List String))
    (tasks : List (List Nat)) (h : actIndexLists p ig labels evs = .ok tasks) : tasks.length = evs.length := by
  induction evs generalizing tasks with
  | nil => simp [actIndexLists] at h; subst h; rfl
  | cons c rest ih =>
    simp only [actIndexLists] at h
    cases h1 : actCues p c with
    | error e => simp [h1] at h
    | ok cs =>
      simp only [h1] at h
      cases h2 : cueIndices ig labels cs with
      | error e => simp [h2] at h
      | ok idx =>
        simp only [h2] at h
        cases h3 : actIndexLists p ig labels rest with
        | error e => simp [h3] at h
        | ok r =>
          simp only [h3, Except.ok.injEq] at h
          subst h
          simp [ih r h3]

/-! ## flat-cell arithmetic -/

theorem mpCell_lt {nOut nEv i k : Nat} (hi : i < nOut) (hk : k < nEv) : mpCell nEv i k < nOut * nEv := by
  unfold mpCell
  calc i * nEv + k < i * nEv + nEv := by omega
    _ = (i + 1) * nEv := by rw [Nat.add_mul, Nat.one_mul]
    _ ≤ nOut * nEv := Nat.mul_le_mul_right nEv hi

theorem mpCell_div {nEv i k : Nat} (hk : k < nEv) : mpCell nEv i k / nEv = i := by
  unfold mpCell
  rw [Nat.mul_comm, Nat.mul_add_div (by omega), Nat.div_eq_of_lt hk, Nat.add_zero]

theorem mpCell_mod {nEv i k : Nat} (hk : k < nEv) : mpCell nEv i k % nEv = k := by
  unfold mpCell
  rw [Nat.mul_comm, Nat.mul_add_mod, Nat.mod_eq_of_lt hk]

theorem mpCell_of_div_mod (nEv d : Nat) : mpCell nEv (d / nEv) (d % nEv) = d := by
  unfold mpCell
  rw [Nat.mul_comm]; exact Nat.div_add_mod d nEv

/-! ## one store, one column, one task, the pool -/

theorem MPBuf.write_spec (b : MPBuf R) (c : Nat) (v : R) (hc : c < b.cells.size) :
    ∃ b', b.write c v = some b' ∧ b'.cells.size = b.cells.size ∧ b'.written = b.written ++ [c] ∧
      ∀ d, b'.cells[d]? = if d = c then some v else b.cells[d]? := by
  refine ⟨⟨b.cells.setIfInBounds c v, b.written ++ [c]⟩, by simp [MPBuf.write, hc], by simp, rfl, ?_⟩
  intro d
  simp only [Array.getElem?_setIfInBounds]
  by_cases h : c = d
  · subst h; simp [hc]
  · have h' : ¬ d = c := fun e => h e.symm
    simp [h, h']

theorem MPBuf.write_none (b : MPBuf R) (c : Nat) (v : R) (hc : ¬ c < b.cells.size) : b.write c v = none := by
  simp [MPBuf.write, hc]

/-- one column: every row in `rows` stored, nothing else touched -/
theorem mpWriteColumn_spec (nEv k : Nat) (hk : k < nEv) (col : List R) (rows : List Nat) (b : MPBuf R)
    (hin : ∀ i ∈ rows, mpCell nEv i k < b.cells.size) :
    ∃ b', mpWriteColumn nEv k col rows b = some b' ∧ b'.cells.size = b.cells.size ∧
      b'.written = b.written ++ rows.map (fun i => mpCell nEv i k) ∧
      ∀ d, b'.cells[d]? = if d % nEv = k ∧ d / nEv ∈ rows then some (col.getD (d / nEv) 0) else b.cells[d]? := by
  induction rows generalizing b with
  | nil => exact ⟨b, rfl, rfl, by simp, by simp⟩
  | cons i rows ih =>
    obtain ⟨b1, h1, hs1, hw1, hc1⟩ := MPBuf.write_spec b (mpCell nEv i k) (col.getD i 0) (hin i (by simp))
    obtain ⟨b2, h2, hs2, hw2, hc2⟩ := ih b1 (fun j hj => by rw [hs1]; exact hin j (by simp [hj]))
    refine ⟨b2, by simp only [mpWriteColumn, h1, h2], by rw [hs2, hs1], by simp [hw2, hw1], ?_⟩
    intro d
    rw [hc2 d, hc1 d]
    by_cases hd : d % nEv = k ∧ d / nEv ∈ rows
    · have : d % nEv = k ∧ d / nEv ∈ i :: rows := ⟨hd.1, by simp [hd.2]⟩
      rw [if_pos hd, if_pos this]
    · rw [if_neg hd]
      by_cases hdc : d = mpCell nEv i k
      · have : d % nEv = k ∧ d / nEv ∈ i :: rows := by
          subst hdc; exact ⟨mpCell_mod hk, by simp [mpCell_div hk]⟩
        rw [if_pos hdc, if_pos this, hdc, mpCell_div hk]
      · have : ¬ (d % nEv = k ∧ d / nEv ∈ i :: rows) := by
          rintro ⟨hm, hmem⟩
          rcases List.mem_cons.mp hmem with h | h
          · apply hdc; rw [← mpCell_of_div_mod nEv d, hm, h]
          · exact hd ⟨hm, h⟩
        rw [if_neg hdc, if_neg this]

/-- one task: the whole column `k` stored, nothing else touched, no store
    outside the buffer -/
theorem mpTask_spec (w : LW R) (nEv : Nat) (b : MPBuf R) (k : Nat) (idx : List Nat) (hk : k < nEv)
    (hsize : b.cells.size = w.outcomes.length * nEv) :
    ∃ b', mpTask w nEv b k idx = some b' ∧ b'.cells.size = b.cells.size ∧
      b'.written = b.written ++ (List.range w.outcomes.length).map (fun i => mpCell nEv i k) ∧
      ∀ d, b'.cells[d]? = if d % nEv = k ∧ d / nEv < w.outcomes.length
        then some ((actColumn w idx).getD (d / nEv) 0) else b.cells[d]? := by
  obtain ⟨b', h, hs, hw, hc⟩ := mpWriteColumn_spec nEv k hk (actColumn w idx) (List.range w.outcomes.length) b
    (fun i hi => by rw [hsize]; exact mpCell_lt (List.mem_range.mp hi) hk)
  exact ⟨b', h, hs, hw, fun d => by rw [hc d]; simp only [List.mem_range]⟩

/-- the cells a list of tasks writes, in execution order -/
def mpTrace (nOut nEv : Nat) (order : List Nat) : List Nat :=
  order.flatMap (fun k => (List.range nOut).map (fun i => mpCell nEv i k))

/-- the pool, ANY list of task indices below the number of tasks (repeats
    allowed — a task executed twice stores the same values): all stores inside
    the buffer; afterwards a cell holds the activation of its (outcome, event)
    if the event's task ran, and its old content otherwise -/
theorem mpRun_spec (w : LW R) (tasks : List (List Nat)) (order : List Nat) (b : MPBuf R)
    (hord : ∀ k ∈ order, k < tasks.length)
    (hsize : b.cells.size = w.outcomes.length * tasks.length) :
    ∃ b', mpRun w tasks order b = some b' ∧ b'.cells.size = b.cells.size ∧
      b'.written = b.written ++ mpTrace w.outcomes.length tasks.length order ∧
      ∀ d, b'.cells[d]? = if d % tasks.length ∈ order ∧ d / tasks.length < w.outcomes.length
        then some ((actColumn w (tasks.getD (d % tasks.length) [])).getD (d / tasks.length) 0)
        else b.cells[d]? := by
  induction order generalizing b with
  | nil => exact ⟨b, rfl, rfl, by simp [mpTrace], by simp⟩
  | cons k ks ih =>
    obtain ⟨b1, h1, hs1, hw1, hc1⟩ := mpTask_spec w tasks.length b k (tasks.getD k []) (hord k (by simp)) hsize
    obtain ⟨b2, h2, hs2, hw2, hc2⟩ := ih b1 (fun j hj => hord j (by simp [hj])) (by rw [hs1, hsize])
    refine ⟨b2, by simp only [mpRun, h1, h2], by rw [hs2, hs1], ?_, ?_⟩
    · rw [hw2, hw1]; simp [mpTrace]
    · intro d
      rw [hc2 d, hc1 d]
      by_cases hd : d % tasks.length ∈ ks ∧ d / tasks.length < w.outcomes.length
      · have : d % tasks.length ∈ k :: ks ∧ d / tasks.length < w.outcomes.length := ⟨by simp [hd.1], hd.2⟩
        rw [if_pos hd, if_pos this]
      · rw [if_neg hd]
        by_cases hk : d % tasks.length = k ∧ d / tasks.length < w.outcomes.length
        · have : d % tasks.length ∈ k :: ks ∧ d / tasks.length < w.outcomes.length := ⟨by simp [hk.1], hk.2⟩
          rw [if_pos hk, if_pos this, hk.1]
        · have : ¬ (d % tasks.length ∈ k :: ks ∧ d / tasks.length < w.outcomes.length) := by
            rintro ⟨hm, hl⟩
            rcases List.mem_cons.mp hm with h | h
            · exact hk ⟨h, hl⟩
            · exact hd ⟨h, hl⟩
          rw [if_neg hk, if_neg this]

/-- a successful store keeps the size of the buffer -/
theorem MPBuf.write_size (b b' : MPBuf R) (c : Nat) (v : R) (h : b.write c v = some b') :
    b'.cells.size = b.cells.size := by
  unfold MPBuf.write at h
  split at h
  · cases h; simp
  · cases h

/-- one column: if SOME row of `rows` addresses a cell that does not exist, the
    column write is reported as failed — whatever the earlier stores (to cells
    that do exist) did -/
theorem mpWriteColumn_none (nEv k : Nat) (col : List R) (rows : List Nat) (b : MPBuf R)
    (hex : ∃ i ∈ rows, ¬ mpCell nEv i k < b.cells.size) : mpWriteColumn nEv k col rows b = none := by
  induction rows generalizing b with
  | nil => obtain ⟨i, hi, _⟩ := hex; cases hi
  | cons j rows ih =>
    simp only [mpWriteColumn]
    cases hw : b.write (mpCell nEv j k) (col.getD j 0) with
    | none => rfl
    | some b' =>
      simp only
      apply ih
      obtain ⟨i, hi, hout⟩ := hex
      rcases List.mem_cons.mp hi with h | h
      · subst h
        exfalso
        have : mpCell nEv i k < b.cells.size := by
          by_contra hc
          rw [MPBuf.write_none b _ _ hc] at hw
          cases hw
        exact hout this
      · exact ⟨i, h, by rw [MPBuf.write_size b b' _ _ hw]; exact hout⟩

/-- **a store outside the buffer is reported** (the model does not hide it), at
    the TRUE bound: a task whose index `k` is no event index (`nEv ≤ k`) makes
    the run fail as soon as the matrix has an outcome row — for EVERY number of
    outcome rows (the store of the LAST row, cell `(nOut-1)*nEv + k ≥ nOut*nEv`,
    is outside; the stores of earlier rows may land in existing cells of other
    columns first).  (The earlier statement asked for `nOut * nEv ≤ k`; the
    second review's example `mpTask exW 3 buf 3 [0] = none`, `k = 3 < 6`, is
    covered by this one.) -/
theorem mpTask_event_index_out_of_range (w : LW R) (nEv : Nat) (b : MPBuf R) (k : Nat) (idx : List Nat)
    (hrow : 0 < w.outcomes.length) (hsize : b.cells.size = w.outcomes.length * nEv)
    (hk : nEv ≤ k) : mpTask w nEv b k idx = none := by
  unfold mpTask
  apply mpWriteColumn_none
  refine ⟨w.outcomes.length - 1, List.mem_range.mpr (by omega), ?_⟩
  rw [hsize]
  unfold mpCell
  have h1 : (w.outcomes.length - 1) * nEv + nEv = w.outcomes.length * nEv := by
    have : w.outcomes.length = (w.outcomes.length - 1) + 1 := by omega
    conv_rhs => rw [this, Nat.add_mul, Nat.one_mul]
  omega

/-- the weaker form (`nOut * nEv ≤ k`), a corollary -/
theorem mpTask_out_of_range (w : LW R) (nEv : Nat) (b : MPBuf R) (k : Nat) (idx : List Nat)
    (hrow : 0 < w.outcomes.length) (hsize : b.cells.size = w.outcomes.length * nEv)
    (hk : w.outcomes.length * nEv ≤ k) : mpTask w nEv b k idx = none :=
  mpTask_event_index_out_of_range w nEv b k idx hrow hsize
    (Nat.le_trans (Nat.le_mul_of_pos_left nEv hrow) hk)

/-- hence a pool run whose `order` contains an entry that is no event index
    fails (with at least one outcome row), whatever the other entries are -/
theorem mpRun_none_of_bad_index (w : LW R) (tasks : List (List Nat)) (order : List Nat) (b : MPBuf R)
    (hrow : 0 < w.outcomes.length) (hsize : b.cells.size = w.outcomes.length * tasks.length)
    (hbad : ∃ k ∈ order, tasks.length ≤ k) : mpRun w tasks order b = none := by
  induction order generalizing b with
  | nil => obtain ⟨k, hk, _⟩ := hbad; cases hk
  | cons j ks ih =>
    simp only [mpRun]
    by_cases hj : tasks.length ≤ j
    · rw [mpTask_event_index_out_of_range w tasks.length b j _ hrow hsize hj]
    · obtain ⟨b1, h1, hs1, _, _⟩ := mpTask_spec w tasks.length b j (tasks.getD j []) (by omega) hsize
      rw [h1]
      simp only
      apply ih b1 (by rw [hs1, hsize])
      obtain ⟨k, hk, hge⟩ := hbad
      rcases List.mem_cons.mp hk with h | h
      · subst h; exact absurd hge hj
      · exact ⟨k, h, hge⟩

/-! ## the trace: every cell exactly once -/

theorem mem_mpTrace_range (nOut nEv d : Nat) :
    d ∈ mpTrace nOut nEv (List.range nEv) ↔ d < nOut * nEv := by
  simp only [mpTrace, List.mem_flatMap, List.mem_range, List.mem_map]
  constructor
  · rintro ⟨k, hk, i, hi, rfl⟩; exact mpCell_lt hi hk
  · intro hd
    have hpos : 0 < nEv := by
      rcases Nat.eq_zero_or_pos nEv with h | h
      · subst h; simp at hd
      · exact h
    exact ⟨d % nEv, Nat.mod_lt _ hpos, d / nEv,
      Nat.div_lt_of_lt_mul (by rwa [Nat.mul_comm] at hd), mpCell_of_div_mod nEv d⟩

theorem mpTrace_range_nodup (nOut nEv : Nat) : (mpTrace nOut nEv (List.range nEv)).Nodup := by
  unfold mpTrace
  rw [List.nodup_flatMap]
  constructor
  · intro k hk
    have hk' := List.mem_range.mp hk
    refine List.Nodup.map_on ?_ List.nodup_range
    intro i _ j _ h
    have := congrArg (· / nEv) h
    simpa [mpCell_div hk'] using this
  · refine List.Nodup.pairwise_of_forall_ne List.nodup_range ?_
    intro k hk k' hk' hne
    have hk1 := List.mem_range.mp hk
    have hk2 := List.mem_range.mp hk'
    simp only [Function.onFun, List.disjoint_left, List.mem_map, List.mem_range, not_exists, not_and]
    rintro d ⟨i, _, rfl⟩ j _ h
    apply hne
    have := congrArg (· % nEv) h
    simp only [mpCell_mod hk1, mpCell_mod hk2] at this
    exact this.symm

/-- the cells written by the tasks of a permutation of the event indices are a
    permutation of ALL flat cells of the buffer -/
theorem mpTrace_perm (nOut nEv : Nat) (order : List Nat) (hperm : order.Perm (List.range nEv)) :
    (mpTrace nOut nEv order).Perm (List.range (nOut * nEv)) := by
  refine (List.Perm.flatMap_right _ hperm).trans ?_
  exact (List.perm_ext_iff_of_nodup (mpTrace_range_nodup nOut nEv) List.nodup_range).mpr
    (fun d => by rw [mem_mpTrace_range, List.mem_range])

/-! ## the reshape -/

theorem list_eq_range_map_getD (l : List R) (n : Nat) (h : l.length = n) :
    l = (List.range n).map (fun i => l.getD i 0) := by
  apply List.ext_getElem
  · simp [h]
  · intro i h1 h2
    simp [List.getD_eq_getElem?_getD, List.getElem?_eq_getElem h1]

theorem actColumn_length (w : LW R) (idx : List Nat) : (actColumn w idx).length = w.outcomes.length := by
  simp [actColumn]

/-- entry `(i, k)` of what the code returns = entry `(k, i)` of the model's
    orientation -/
theorem mpByOutcome_transpose (nOut nEv : Nat) (cells : Array R) (i k : Nat) (hi : i < nOut) (hk : k < nEv) :
    ((mpByOutcome nOut nEv cells).getD i []).getD k 0 = ((mpByEvent nOut nEv cells).getD k []).getD i 0 := by
  simp [mpByOutcome, mpByEvent, List.getD_eq_getElem?_getD, List.getElem?_map, List.getElem?_range, hi, hk]

/-- **the pool computes the single-process columns**: for every permutation
    `order` of the event indices and every initial buffer of the right size -/
theorem mpRun_eq_columns (w : LW R) (tasks : List (List Nat)) (order : List Nat) (init : Array R)
    (hperm : order.Perm (List.range tasks.length))
    (hsize : init.size = w.outcomes.length * tasks.length) :
    ∃ b, mpRun w tasks order ⟨init, []⟩ = some b ∧
      b.cells.size = w.outcomes.length * tasks.length ∧
      b.written.Perm (List.range (w.outcomes.length * tasks.length)) ∧
      mpByEvent w.outcomes.length tasks.length b.cells = tasks.map (actColumn w) := by
  have hord : ∀ k ∈ order, k < tasks.length := fun k hk => List.mem_range.mp (hperm.mem_iff.mp hk)
  obtain ⟨b, h, hs, hw, hc⟩ := mpRun_spec w tasks order ⟨init, []⟩ hord hsize
  refine ⟨b, h, by rw [hs]; exact hsize, ?_, ?_⟩
  · rw [hw]; simpa using mpTrace_perm _ _ order hperm
  · apply List.ext_getElem
    · simp [mpByEvent]
    · intro k h1 h2
      have hk : k < tasks.length := by simpa using h2
      simp only [mpByEvent, List.getElem_map, List.getElem_range]
      rw [list_eq_range_map_getD (actColumn w tasks[k]) _ (actColumn_length w _)]
      apply List.map_congr_left
      intro i hi
      have hi' := List.mem_range.mp hi
      rw [Array.getD_eq_getD_getElem?, hc (mpCell tasks.length i k)]
      have hmem : k ∈ order := hperm.mem_iff.mpr (List.mem_range.mpr hk)
      simp only [mpCell_mod hk, mpCell_div hk, hmem, hi', and_self, if_true, Option.getD_some]
      have ht : tasks.getD k [] = tasks[k] := by
        rw [List.getD_eq_getElem?_getD, List.getElem?_eq_getElem hk]; rfl
      rw [ht, List.getD_eq_getElem?_getD]

/-- **`activation()` with `n_jobs >= 2` = `activation()` with `n_jobs = 1`**:
    whatever the completion order of the tasks (any permutation of the event
    indices) and whatever the initial content of the shared buffer, the
    multi-process path returns (or raises) exactly what the single-process path
    returns (raises) -/
theorem activationMatrixMP_eq (p : DupPolicy) (ig : Bool) (w : LW R) (evs : List (List String))
    (order : List Nat) (init : Array R)
    (hperm : order.Perm (List.range evs.length))
    (hsize : init.size = w.outcomes.length * evs.length) :
    activationMatrixMP p ig w evs order init = activationMatrix p ig w evs := by
  rw [activationMatrix_eq_indexLists]
  unfold activationMatrixMP
  cases ht : actIndexLists p ig w.cues evs with
  | error e => rfl
  | ok tasks =>
    have hl := actIndexLists_length p ig w.cues evs tasks ht
    obtain ⟨b, h, _, _, hM⟩ := mpRun_eq_columns w tasks order init (by rw [hl]; exact hperm) (by rw [hl]; exact hsize)
    simp only [h, hM]

end

end Pyndl
