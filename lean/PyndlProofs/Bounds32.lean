import PyndlProofs.Partition

set_option linter.unusedSectionVars false
set_option linter.unusedSimpArgs false
set_option linter.unusedVariables false

namespace Pyndl
open List

/-- **no wrap-around of the OpenMP partition bounds**: when
    `length_all_outcomes + chunksize < 2³²` the `unsigned int` computation of
    `(start_val, end_val)` equals the unbounded one for every part. -/
theorem ompBounds32_eq (n chunk : UInt32) (hc : 1 ≤ chunk.toNat) (hfit : n.toNat + chunk.toNat < 4294967296) :
    (ompBounds32 n chunk).map (fun p => (p.1.toNat, p.2.toNat)) = ompBounds n.toNat chunk.toNat := by
  unfold ompBounds32 ompBounds
  simp only
  rw [List.map_filterMap]
  apply List.filterMap_congr
  intro ii hii
  rw [List.mem_range] at hii
  have h1 : (ii + 1) * chunk.toNat ≤ n.toNat + chunk.toNat - 1 := by
    have := Nat.mul_le_of_le_div chunk.toNat (ii + 1) (n.toNat + chunk.toNat - 1) (by omega)
    simpa [Nat.mul_comm] using this
  have h2 : ii * chunk.toNat < n.toNat := by
    have : (ii + 1) * chunk.toNat = ii * chunk.toNat + chunk.toNat := by ring
    omega
  have hiilt : ii < 4294967296 := by
    have : ii ≤ ii * chunk.toNat := Nat.le_mul_of_pos_right ii (by omega)
    omega
  have hs : (UInt32.ofNat ii * chunk).toNat = ii * chunk.toNat := by
    have hm : ii % 2 ^ 32 = ii := Nat.mod_eq_of_lt (by omega)
    rw [UInt32.toNat_mul, UInt32.toNat_ofNat', hm]
    exact Nat.mod_eq_of_lt (by omega)
  have hse : (UInt32.ofNat ii * chunk + chunk).toNat = ii * chunk.toNat + chunk.toNat := by
    rw [UInt32.toNat_add, hs]
    exact Nat.mod_eq_of_lt (by omega)
  have hne : ¬ (UInt32.ofNat ii * chunk = n) := by
    intro e
    have := congrArg UInt32.toNat e
    rw [hs] at this; omega
  have hne' : ¬ (ii * chunk.toNat = n.toNat) := by omega
  simp only [beq_iff_eq, hne, if_false, hne', Option.map_some, Option.some.injEq, Prod.mk.injEq, hs,
    true_and]
  by_cases hle : UInt32.ofNat ii * chunk + chunk ≤ n
  · have hle' : ii * chunk.toNat + chunk.toNat ≤ n.toNat := by
      have := UInt32.le_iff_toNat_le.mp hle; rw [hse] at this; exact this
    rw [if_pos hle, hse, Nat.min_eq_left hle']
  · have hle' : ¬ (ii * chunk.toNat + chunk.toNat ≤ n.toNat) := by
      intro h; apply hle; rw [UInt32.le_iff_toNat_le, hse]; exact h
    rw [if_neg hle, Nat.min_eq_right (by omega)]

end Pyndl
