import PyndlModel.Activation
import PyndlProofs.RW
import PyndlProofs.Continue
import PyndlProofs.NdlContinue

set_option linter.unusedSectionVars false
set_option linter.unusedSimpArgs false
set_option linter.unusedVariables false

namespace Pyndl
open List

variable {R : Type} [CommRing R]

/-- result of the index lookup: the present cues in order (as indices), or
    KeyError iff some cue is missing and missing cues are not ignored -/
theorem cueIndices_spec (ig : Bool) (labels : List String) (cs : List String) :
    cueIndices ig labels cs =
      if !ig && cs.any (fun c => !labels.contains c) then .error .key
      else .ok ((cs.filter (fun c => labels.contains c)).map (labels.idxOf ·)) := by
  induction cs with
  | nil => simp [cueIndices]
  | cons c cs ih =>
    simp only [cueIndices, ih, List.any_cons, List.filter_cons]
    by_cases hc : labels.contains c = true
    · simp only [hc, if_true, Bool.not_true, Bool.false_or]
      by_cases h2 : (!ig && cs.any (fun c => !labels.contains c)) = true
      · rw [if_pos h2, if_pos h2]
      · rw [if_neg h2, if_neg h2]; rfl
    · simp only [hc, Bool.false_eq_true, if_false, Bool.not_false, Bool.true_or]
      cases ig with
      | true => simp
      | false => simp

theorem idxOf_getElem_nodup (l : List String) (h : l.Nodup) (i : Nat) (hi : i < l.length) :
    l.idxOf l[i] = i := List.Nodup.idxOf_getElem h i hi

/-- **activation = cue-wise sum of weights** (matrix path): entry `i` of the
    column computed for an event is the sum over the event's (present) cues of
    the weight between outcome `i` and the cue — with multiplicity. -/
theorem actColumn_eq_sum (w : LW R) (hn : w.outcomes.Nodup) (cs : List String)
    (hcs : ∀ c ∈ cs, c ∈ w.cues) (i : Nat) (hi : i < w.outcomes.length) :
    (actColumn w (cs.map (w.cues.idxOf ·))).getD i 0 = sumOver (w.get w.outcomes[i]) cs := by
  unfold actColumn
  rw [List.getD_eq_getElem?_getD, List.getElem?_map, List.getElem?_range hi]
  simp only [Option.map_some, Option.getD_some, List.foldl_map, sumOver]
  have key : ∀ (cs : List String) (hcs : ∀ c ∈ cs, c ∈ w.cues) (a : R),
      cs.foldl (fun acc c => acc + w.vals.getD (i * w.cues.length + w.cues.idxOf c) 0) a
        = cs.foldl (fun acc c => acc + w.get w.outcomes[i] c) a := by
    intro cs
    induction cs with
    | nil => intros; rfl
    | cons c cs ih =>
      intro hcs a
      simp only [List.foldl_cons]
      rw [ih (fun x hx => hcs x (by simp [hx]))]
      congr 2
      unfold LW.get
      have hc : w.cues.idxOf c < w.cues.length := List.idxOf_lt_length_iff.mpr (hcs c (by simp))
      have ho : w.outcomes.idxOf w.outcomes[i] = i := idxOf_getElem_nodup _ hn i hi
      simp only [ho, hi, hc, and_self, if_true]
  exact key cs hcs 0

/-- dict path: the same sum (missing cues of a defaultdict count 0) -/
theorem dictRowAct_eq_sum (row : List (String × R)) (cs : List String) :
    dictRowAct false row cs = .ok (sumOver (alGet row) cs) := by
  simp [dictRowAct, sumOver]

theorem dictRowAct_strict (row : List (String × R)) (cs : List String) :
    dictRowAct true row cs =
      if cs.any (fun c => !(row.map (·.1)).contains c) then .error .key
      else .ok (sumOver (alGet row) cs) := by
  simp only [dictRowAct, sumOver, Bool.true_and]

/-- **learner/activation link**: one further learning step changes the weight
    of a cue occurring `m` times by `m · α · β · (target − activation)`. -/
theorem step_delta {ι κ : Type} [DecidableEq ι] [DecidableEq κ] (α : ι → R) (β₁ β₂ lam : R)
    (W : κ → ι → R) (e : Event ι κ) (o : κ) (c : ι) :
    rwStep α β₁ β₂ lam W e o c - W o c
      = (e.cues.count c : R) * (α c *
          (if o ∈ e.outcomes then β₁ * (lam - sumOver (W o) e.cues)
           else β₂ * (0 - sumOver (W o) e.cues))) := by
  simp only [rwStep, rwRow_apply, rwU, sumOver_eq]
  by_cases h : o ∈ e.outcomes <;> simp [h]

/-- events are processed independently: the activations of `xs ++ ys` are
    those of `xs` followed by those of `ys` — any distribution of the events
    over worker processes gives the same matrix -/
theorem activationMatrix_append (p : DupPolicy) (ig : Bool) (w : LW R) (xs ys : List (List String))
    (a b : List (List R)) (ha : activationMatrix p ig w xs = .ok a) (hb : activationMatrix p ig w ys = .ok b) :
    activationMatrix p ig w (xs ++ ys) = .ok (a ++ b) := by
  induction xs generalizing a with
  | nil => simp [activationMatrix] at ha; subst ha; simpa using hb
  | cons x xs ih =>
    simp only [List.cons_append, activationMatrix] at ha ⊢
    cases h1 : actCues p x with
    | error e => simp [h1] at ha
    | ok cs =>
      simp only [h1] at ha ⊢
      cases h2 : cueIndices ig w.cues cs with
      | error e => simp [h2] at ha
      | ok idx =>
        simp only [h2] at ha ⊢
        cases h3 : activationMatrix p ig w xs with
        | error e => simp [h3] at ha
        | ok r =>
          simp only [h3, Except.ok.injEq] at ha
          subst ha
          simp [ih r h3]

/-! ## the whole of `activation()` on a labelled matrix -/

/-- the cues of an event that CONTRIBUTE to its activations: what the duplicate
    policy (`True`: each cue once; `False`: with multiplicity; `None`: the cues
    themselves — a repeated cue raises) and `ignore_missing_cues` (cues that are
    no label of the matrix are dropped; without it they raise) leave -/
def contribCues (p : DupPolicy) (labels cues : List String) : List String :=
  (match p with
    | .dedup => dedupKeepFirst cues
    | _ => cues).filter (fun c => labels.contains c)

/-- what `activation()` raises for ONE event (activation.py:72-95; the events
    are consumed in order, per event the duplicate check comes before the cue
    lookup): `ValueError` for a repeated cue under `remove_duplicates=None`,
    `KeyError` for a cue that is no label of the matrix unless
    `ignore_missing_cues`; `none` = the event is accepted -/
def actEventErr (p : DupPolicy) (ig : Bool) (labels cues : List String) : Option Err :=
  if p = .error ∧ hasDup cues = true then some .value
  else if ig = false ∧ cues.any (fun c => !labels.contains c) = true then some .key
  else none

theorem any_not_contains_dedup (labels cues : List String) :
    (dedupKeepFirst cues).any (fun c => !labels.contains c) = cues.any (fun c => !labels.contains c) := by
  rw [Bool.eq_iff_iff]
  simp only [List.any_eq_true]
  constructor
  · rintro ⟨c, hc, h⟩; exact ⟨c, (mem_dedupKeepFirst cues c).mp hc, h⟩
  · rintro ⟨c, hc, h⟩; exact ⟨c, (mem_dedupKeepFirst cues c).mpr hc, h⟩

/-- one event of `activationMatrix`: the error of `actEventErr`, or the column
    of the contributing cues -/
theorem actEvent_spec (p : DupPolicy) (ig : Bool) (w : LW R) (cues : List String) :
    (match actCues p cues with
      | .error e => (.error e : Except Err (List R))
      | .ok cs =>
        match cueIndices ig w.cues cs with
        | .error e => .error e
        | .ok idx => .ok (actColumn w idx))
      = match actEventErr p ig w.cues cues with
        | some e => .error e
        | none => .ok (actColumn w ((contribCues p w.cues cues).map (w.cues.idxOf ·))) := by
  unfold actEventErr contribCues
  cases p with
  | error =>
    by_cases hd : hasDup cues = true
    · simp [actCues, hd]
    · simp only [actCues, hd, if_false, Bool.false_eq_true, and_false, true_and, cueIndices_spec]
      generalize cues.any (fun c => !w.cues.contains c) = b
      cases b <;> cases ig <;> simp
  | dedup =>
    simp only [actCues, cueIndices_spec, any_not_contains_dedup, reduceCtorEq, false_and, if_false]
    generalize cues.any (fun c => !w.cues.contains c) = b
    cases b <;> cases ig <;> simp
  | keep =>
    simp only [actCues, cueIndices_spec, reduceCtorEq, false_and, if_false]
    generalize cues.any (fun c => !w.cues.contains c) = b
    cases b <;> cases ig <;> simp

theorem activationMatrix_cons (p : DupPolicy) (ig : Bool) (w : LW R) (cues : List String)
    (rest : List (List String)) :
    activationMatrix p ig w (cues :: rest)
      = match actEventErr p ig w.cues cues with
        | some e => .error e
        | none =>
          match activationMatrix p ig w rest with
          | .error e => .error e
          | .ok r => .ok (actColumn w ((contribCues p w.cues cues).map (w.cues.idxOf ·)) :: r) := by
  have h := actEvent_spec p ig w cues
  simp only [activationMatrix]
  cases h1 : actCues p cues with
  | error e =>
    rw [h1] at h
    simp only at h
    cases h2 : actEventErr p ig w.cues cues with
    | some e' => rw [h2] at h; simp only [Except.error.injEq] at h ⊢; exact h
    | none => rw [h2] at h; simp only at h; cases h
  | ok cs =>
    rw [h1] at h
    simp only at h ⊢
    cases h3 : cueIndices ig w.cues cs with
    | error e =>
      rw [h3] at h
      simp only at h ⊢
      cases h2 : actEventErr p ig w.cues cues with
      | some e' => rw [h2] at h; simp only [Except.error.injEq] at h ⊢; exact h
      | none => rw [h2] at h; simp only at h; cases h
    | ok idx =>
      rw [h3] at h
      simp only at h ⊢
      cases h2 : actEventErr p ig w.cues cues with
      | some e' => rw [h2] at h; simp only at h; cases h
      | none =>
        rw [h2] at h
        simp only [Except.ok.injEq] at h ⊢
        rw [h]
        cases activationMatrix p ig w rest <;> rfl

/-- **`activation()` succeeds iff every event is accepted**, and then returns
    one column per event: that of its contributing cues -/
theorem activationMatrix_ok_of (p : DupPolicy) (ig : Bool) (w : LW R) (evs : List (List String))
    (h : ∀ cues ∈ evs, actEventErr p ig w.cues cues = none) :
    activationMatrix p ig w evs
      = .ok (evs.map (fun cues => actColumn w ((contribCues p w.cues cues).map (w.cues.idxOf ·)))) := by
  induction evs with
  | nil => rfl
  | cons cues rest ih =>
    rw [activationMatrix_cons, h cues (by simp), ih (fun c hc => h c (by simp [hc]))]
    rfl

/-- **the first rejected event decides**: all events before it accepted, the
    event itself rejected with `e` ⇒ `activation()` raises `e`, whatever follows -/
theorem activationMatrix_error_of (p : DupPolicy) (ig : Bool) (w : LW R) (xs : List (List String))
    (bad : List String) (ys : List (List String)) (e : Err)
    (hxs : ∀ cues ∈ xs, actEventErr p ig w.cues cues = none)
    (hbad : actEventErr p ig w.cues bad = some e) :
    activationMatrix p ig w (xs ++ bad :: ys) = .error e := by
  induction xs with
  | nil => rw [List.nil_append, activationMatrix_cons, hbad]
  | cons cues rest ih =>
    rw [List.cons_append, activationMatrix_cons, hxs cues (by simp), ih (fun c hc => hxs c (by simp [hc]))]

theorem activationMatrix_ok_accepts (p : DupPolicy) (ig : Bool) (w : LW R) (evs : List (List String))
    (M : List (List R)) (h : activationMatrix p ig w evs = .ok M) :
    ∀ cues ∈ evs, actEventErr p ig w.cues cues = none := by
  induction evs generalizing M with
  | nil => intro c hc; cases hc
  | cons cues rest ih =>
    rw [activationMatrix_cons] at h
    cases h2 : actEventErr p ig w.cues cues with
    | some e => rw [h2] at h; cases h
    | none =>
      rw [h2] at h
      simp only at h
      cases h3 : activationMatrix p ig w rest with
      | error e => rw [h3] at h; cases h
      | ok r =>
        intro c hc
        rcases List.mem_cons.mp hc with rfl | hc
        · exact h2
        · exact ih r h3 c hc

theorem contribCues_mem (p : DupPolicy) (labels cues : List String) :
    ∀ c ∈ contribCues p labels cues, c ∈ labels := by
  intro c hc
  unfold contribCues at hc
  have := (List.mem_filter.mp hc).2
  simpa using this

/-- **`activationMatrix` = cue-wise sums of weights.**  If the model of
    `activation()` returns the matrix `M` (rows = events, columns = outcomes),
    then `M` has one row per event, every event was accepted (no repeated cue
    under `None`, no unknown cue unless ignored), every row has one entry per
    outcome, and entry `(k, i)` is the sum of the weights of outcome `i` over the
    cues of event `k` that the duplicate policy and `ignore_missing_cues` leave
    (`contribCues`).  `hno`: distinct outcome labels (so that `LW.get` at the
    `i`-th label reads row `i`); `hnc`: distinct cue labels — not used by the
    proof: the model looks a cue up at its FIRST position (`idxOf`), the code's
    `OrderedDict` at its LAST; with distinct labels they agree. -/
theorem activationMatrix_spec (p : DupPolicy) (ig : Bool) (w : LW R) (hno : w.outcomes.Nodup)
    (hnc : w.cues.Nodup) (evs : List (List String)) (M : List (List R))
    (h : activationMatrix p ig w evs = .ok M) :
    M.length = evs.length ∧
    ∀ k (hk : k < evs.length),
      actEventErr p ig w.cues evs[k] = none ∧
      (M.getD k []).length = w.outcomes.length ∧
      ∀ i (hi : i < w.outcomes.length),
        (M.getD k []).getD i 0 = sumOver (w.get w.outcomes[i]) (contribCues p w.cues evs[k]) := by
  have hacc := activationMatrix_ok_accepts p ig w evs M h
  rw [activationMatrix_ok_of p ig w evs hacc] at h
  simp only [Except.ok.injEq] at h
  subst h
  refine ⟨by simp, ?_⟩
  intro k hk
  refine ⟨hacc _ (List.getElem_mem hk), ?_, ?_⟩
  · rw [List.getD_eq_getElem?_getD, List.getElem?_map, List.getElem?_eq_getElem hk]
    simp [actColumn]
  · intro i hi
    rw [List.getD_eq_getElem?_getD (l := List.map _ evs), List.getElem?_map, List.getElem?_eq_getElem hk]
    simp only [Option.map_some, Option.getD_some]
    exact actColumn_eq_sum w hno _ (contribCues_mem p w.cues evs[k]) i hi

/-! ## the learners and the modelled activation -/

/-- **one further `dict_ndl` step and the dict path of `activation()`**: learning
    ONE more event `e` (policy-processed: `e'`) from the weight dict `W` changes
    the weight between outcome `o` and cue `c` by
    `multiplicity(c) · α(c) · β · (target − a)`, where `a` is the activation the
    dict path of `activation()` (`dictRowAct`, defaultdict rows) computes for
    `o` and the cues of the event from `W` -/
theorem dictNdl_step_delta (p : DupPolicy) (α : String → R) (β₁ β₂ lam : R) (W : WDict String String R)
    (e e' : Event String String) (hp : applyPolicy p e = some e') :
    ∃ W', dictNdl p α β₁ β₂ lam W [e] = some W' ∧
      ∀ o a, dictRowAct false (wdRow W o) e'.cues = .ok a → ∀ c,
        wdAbs W' o c - wdAbs W o c
          = (e'.cues.count c : R) * (α c *
              (if o ∈ e'.outcomes then β₁ * (lam - a) else β₂ * (0 - a))) := by
  have hpa : applyPolicyAll p [e] = some [e'] := by simp [applyPolicyAll, hp]
  obtain ⟨W', h1, h2⟩ := dictNdl_eq_spec p α β₁ β₂ lam W [e] [e'] hpa
  refine ⟨W', h1, ?_⟩
  intro o a ha c
  rw [dictRowAct_eq_sum] at ha
  simp only [Except.ok.injEq] at ha
  rw [h2]
  show rwStep α β₁ β₂ lam (wdAbs W) e' o c - wdAbs W o c = _
  rw [step_delta, ← ha]
  rfl

/-- **one further `ndl.ndl` step and the matrix path of `activation()`**: continuing
    `ndl.ndl` from the labelled matrix `w` over ONE event `e` (policy-processed:
    `e'`, all of whose cues are labels of `w`) changes the weight between the
    `i`-th outcome and cue `c` by `multiplicity(c) · α · β · (target − col[i])`,
    where `col` is the column `activation(…, remove_duplicates=False)` computes
    from `w` for the cues of `e'`.  Hypotheses as in `ndlModel_continue_eq_spec`
    plus duplicate-free labels. -/
theorem ndlModel_step_delta (magic version : Nat) (hm : magic < 4294967296) (hv : version < 4294967296)
    (cfg : NdlCfg) (alpha β₁ β₂ lam : R)
    (w : LW R) (hno : w.outcomes.Nodup) (hnc : w.cues.Nodup)
    (e e' : Event String String) (hcfg : CfgOK cfg (mergedOutcomes w [e]).length)
    (hp : applyPolicy cfg.policy e = some e')
    (hfit : Fits32With w [e]) (hin : ∀ c ∈ e'.cues, c ∈ w.cues) :
    ∃ r col, ndlModel magic version cfg alpha β₁ β₂ lam (some w) [e] = .ok (r, 1) ∧
      activationMatrix .keep false w [e'.cues] = .ok [col] ∧
      ∀ i (hi : i < w.outcomes.length) c,
        r.get w.outcomes[i] c - w.get w.outcomes[i] c
          = (e'.cues.count c : R) * (alpha *
              (if w.outcomes[i] ∈ e'.outcomes then β₁ * (lam - col.getD i 0)
               else β₂ * (0 - col.getD i 0))) := by
  have hpa : applyPolicyAll cfg.policy [e] = some [e'] := by simp [applyPolicyAll, hp]
  obtain ⟨r, h1, h2⟩ := ndlModel_continue_eq_spec magic version hm hv cfg alpha β₁ β₂ lam
    w [e] [e'] hcfg hpa hfit
  have hacc : ∀ cues ∈ [e'.cues], actEventErr .keep false w.cues cues = none := by
    intro cues hc
    rw [List.mem_singleton] at hc
    subst hc
    unfold actEventErr
    have : e'.cues.any (fun c => !w.cues.contains c) = false := by
      apply List.any_eq_false.mpr
      intro c hc
      simpa using hin c hc
    simp only [reduceCtorEq, false_and, if_false, this, Bool.false_eq_true, and_false]
  have hact := activationMatrix_ok_of .keep false w [e'.cues] hacc
  have hcc : contribCues .keep w.cues e'.cues = e'.cues := by
    unfold contribCues
    apply List.filter_eq_self.mpr
    intro c hc
    simpa using hin c hc
  refine ⟨r, actColumn w (e'.cues.map (w.cues.idxOf ·)), h1, ?_, ?_⟩
  · rw [hact, List.map_singleton, hcc]
  · intro i hi c
    rw [h2, actColumn_eq_sum w hno e'.cues hin i hi]
    show rwStep (fun _ => alpha) β₁ β₂ lam (fun o c => w.get o c) e' w.outcomes[i] c - _ = _
    rw [step_delta]

end Pyndl
