import PyndlModel.Activation
import PyndlProofs.RW
import PyndlProofs.Continue

set_option linter.unusedSectionVars false
set_option linter.unusedSimpArgs false
set_option linter.unusedVariables false

namespace Pyndl
open List

variable {R : Type} [CommRing R]

/-- result of the index lookup: the present cues in order (as indices), or
    KeyError iff some cue is missing and missing cues are not ignored -/
theorem cueIndices_spec (ig : Bool) (labels : List String) (cs : List String) :
    cueIndices ig labels cs =
      if !ig && cs.any (fun c => !labels.contains c) then .error .key
      else .ok ((cs.filter (fun c => labels.contains c)).map (labels.idxOf ·)) := by
  induction cs with
  | nil => simp [cueIndices]
  | cons c cs ih =>
    simp only [cueIndices, ih, List.any_cons, List.filter_cons]
    by_cases hc : labels.contains c = true
    · simp only [hc, if_true, Bool.not_true, Bool.false_or]
      by_cases h2 : (!ig && cs.any (fun c => !labels.contains c)) = true
      · rw [if_pos h2, if_pos h2]
      · rw [if_neg h2, if_neg h2]; rfl
    · simp only [hc, Bool.false_eq_true, if_false, Bool.not_false, Bool.true_or]
      cases ig with
      | true => simp
      | false => simp

theorem idxOf_getElem_nodup (l : List String) (h : l.Nodup) (i : Nat) (hi : i < l.length) :
    l.idxOf l[i] = i := List.Nodup.idxOf_getElem h i hi

/-- **activation = cue-wise sum of weights** (matrix path): entry `i` of the
    column computed for an event is the sum over the event's (present) cues of
    the weight between outcome `i` and the cue — with multiplicity. -/
theorem actColumn_eq_sum (w : LW R) (hn : w.outcomes.Nodup) (cs : List String)
    (hcs : ∀ c ∈ cs, c ∈ w.cues) (i : Nat) (hi : i < w.outcomes.length) :
    (actColumn w (cs.map (w.cues.idxOf ·))).getD i 0 = sumOver (w.get w.outcomes[i]) cs := by
  unfold actColumn
  rw [List.getD_eq_getElem?_getD, List.getElem?_map, List.getElem?_range hi]
  simp only [Option.map_some, Option.getD_some, List.foldl_map, sumOver]
  have key : ∀ (cs : List String) (hcs : ∀ c ∈ cs, c ∈ w.cues) (a : R),
      cs.foldl (fun acc c => acc + w.vals.getD (i * w.cues.length + w.cues.idxOf c) 0) a
        = cs.foldl (fun acc c => acc + w.get w.outcomes[i] c) a := by
    intro cs
    induction cs with
    | nil => intros; rfl
    | cons c cs ih =>
      intro hcs a
      simp only [List.foldl_cons]
      rw [ih (fun x hx => hcs x (by simp [hx]))]
      congr 2
      unfold LW.get
      have hc : w.cues.idxOf c < w.cues.length := List.idxOf_lt_length_iff.mpr (hcs c (by simp))
      have ho : w.outcomes.idxOf w.outcomes[i] = i := idxOf_getElem_nodup _ hn i hi
      simp only [ho, hi, hc, and_self, if_true]
  exact key cs hcs 0

/-- dict path: the same sum (missing cues of a defaultdict count 0) -/
theorem dictRowAct_eq_sum (row : List (String × R)) (cs : List String) :
    dictRowAct false row cs = .ok (sumOver (alGet row) cs) := by
  simp [dictRowAct, sumOver]

theorem dictRowAct_strict (row : List (String × R)) (cs : List String) :
    dictRowAct true row cs =
      if cs.any (fun c => !(row.map (·.1)).contains c) then .error .key
      else .ok (sumOver (alGet row) cs) := by
  simp only [dictRowAct, sumOver, Bool.true_and]

/-- **learner/activation link**: one further learning step changes the weight
    of a cue occurring `m` times by `m · α · β · (target − activation)`. -/
theorem step_delta {ι κ : Type} [DecidableEq ι] [DecidableEq κ] (α : ι → R) (β₁ β₂ lam : R)
    (W : κ → ι → R) (e : Event ι κ) (o : κ) (c : ι) :
    rwStep α β₁ β₂ lam W e o c - W o c
      = (e.cues.count c : R) * (α c *
          (if o ∈ e.outcomes then β₁ * (lam - sumOver (W o) e.cues)
           else β₂ * (0 - sumOver (W o) e.cues))) := by
  simp only [rwStep, rwRow_apply, rwU, sumOver_eq]
  by_cases h : o ∈ e.outcomes <;> simp [h]

/-- events are processed independently: the activations of `xs ++ ys` are
    those of `xs` followed by those of `ys` — any distribution of the events
    over worker processes gives the same matrix -/
theorem activationMatrix_append (p : DupPolicy) (ig : Bool) (w : LW R) (xs ys : List (List String))
    (a b : List (List R)) (ha : activationMatrix p ig w xs = .ok a) (hb : activationMatrix p ig w ys = .ok b) :
    activationMatrix p ig w (xs ++ ys) = .ok (a ++ b) := by
  induction xs generalizing a with
  | nil => simp [activationMatrix] at ha; subst ha; simpa using hb
  | cons x xs ih =>
    simp only [List.cons_append, activationMatrix] at ha ⊢
    cases h1 : actCues p x with
    | error e => simp [h1] at ha
    | ok cs =>
      simp only [h1] at ha ⊢
      cases h2 : cueIndices ig w.cues cs with
      | error e => simp [h2] at ha
      | ok idx =>
        simp only [h2] at ha ⊢
        cases h3 : activationMatrix p ig w xs with
        | error e => simp [h3] at ha
        | ok r =>
          simp only [h3, Except.ok.injEq] at ha
          subst ha
          simp [ih r h3]

end Pyndl
