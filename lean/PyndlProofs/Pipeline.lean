/-
  PyndlProofs.Pipeline — the stage models composed (feeds C15).

  The text format (PyndlModel/Text.lean), the filter (PyndlModel/Filter.lean)
  and the creator (PyndlModel/Create.lean) were modelled independently; the
  first two carry their own copy of `str.split(sep)` / `sep.join(…)`.  This
  file proves that the copies are the same functions (`filter_splitOn_eq`,
  `filter_joinWith_eq`), transports the filter to the TOKEN level
  (`filterEvent`, `applyRules_renderEvent`) and composes

      writer (`Text.renderFile false`)
        → filter (`Filter.filterEventFile '\t' '_'`)
        → reader (`Text.parseFile 0 1`)
        → learner (`dictNdl`)

  and, in front of it, the creator (`Create.createEvents`).
-/
import PyndlProofs.Text
import PyndlProofs.Filter
import PyndlProofs.Dict
import PyndlProofs.Create
import PyndlProofs.CreateLF

set_option linter.unusedSectionVars false
set_option linter.unusedSimpArgs false
set_option linter.unusedVariables false

namespace Pyndl.Pipeline
open Pyndl Pyndl.Text List

/-! ## the two copies of `split` / `join` are the same functions -/

/-- `Filter.splitOn` at `χ := Char` is `Text.splitOn` (same structural recursion). -/
theorem filter_splitOn_eq (sep : Char) (s : Str) : Filter.splitOn sep s = Text.splitOn sep s := by
  induction s with
  | nil => rfl
  | cons c cs ih =>
    by_cases h : c = sep
    · simp only [Filter.splitOn, Text.splitOn, if_pos h, ih]
    · simp only [Filter.splitOn, Text.splitOn, if_neg h, ih]
      cases Text.splitOn sep cs <;> rfl

theorem filter_splitOn_eq_fun : Filter.splitOn (χ := Char) = Text.splitOn := by
  funext sep s; exact filter_splitOn_eq sep s

/-- `Filter.joinWith` at `χ := Char` is `Text.joinWith`. -/
theorem filter_joinWith_eq (sep : Char) (xs : List Str) :
    Filter.joinWith sep xs = Text.joinWith sep xs := by
  induction xs with
  | nil => rfl
  | cons x r ih =>
    cases r with
    | nil => rfl
    | cons y r => simp only [Filter.joinWith, Text.joinWith, ih]

theorem filter_joinWith_eq_fun : Filter.joinWith (χ := Char) = Text.joinWith := by
  funext sep xs; exact filter_joinWith_eq sep xs

/-! ## well-formed tokens and events (the domain of the composition) -/

/-- a token: non-empty, no TAB, LF, CR, underscore (definitionally `C07.WfTok`). -/
def TokWf (t : Str) : Prop := t ≠ [] ∧ TAB ∉ t ∧ LF ∉ t ∧ CR ∉ t ∧ US ∉ t

/-- an event: at least one cue, well-formed tokens, any number of outcomes
    (definitionally `C07.WfEvent`). -/
def EventWf (e : TEvent) : Prop :=
  e.cues ≠ [] ∧ (∀ t ∈ e.cues, TokWf t) ∧ (∀ t ∈ e.outcomes, TokWf t)

theorem TokWf.ok {t : Str} (h : TokWf t) : TokOk t := h.2

theorem EventWf.ok {e : TEvent} (h : EventWf e) : EventOk e :=
  ⟨fun t ht => (h.2.1 t ht).ok, fun t ht => (h.2.2 t ht).ok⟩

theorem EventWf.norm {e : TEvent} (h : EventWf e) : normaliseAll e = normalise e := by
  simp [normaliseAll, normalise, normList, h.1]

/-! ## the filter on the token level -/

/-- **the filter, on tokens** (preprocess.py:508-518): the selected rules are
    applied to the cue list and to the outcome list; the event is dropped
    exactly when no cue is left; an event that loses all its outcomes is KEPT
    (with an empty outcome list — written as an empty field). -/
def filterEvent (rc ro : Filter.Rule Char) (e : TEvent) : Option TEvent :=
  let cs := rc.apply e.cues
  if cs = [] then none else some ⟨cs, ro.apply e.outcomes⟩

/-- a rename whose image tokens are again tokens of the text format: every
    value of the dict is either `""` (the token is dropped, preprocess.py:476 /
    :492) or well formed.  `keep` / `remove` / `all` only delete tokens and need
    nothing. -/
def RuleImgWf : Filter.Rule Char → Prop
  | .map m => ∀ s, Filter.lookupD m s ≠ [] → TokWf (Filter.lookupD m s)
  | _ => True

/-- the rule does not turn the EMPTY token into a token.  An event without
    outcomes is written with an empty outcome field, which the filter splits to
    `[""]`: `keep` / `remove` / `all` leave `[""]` or `[]`, both of which are
    written as the empty field again; a rename with the key `""` would invent an
    outcome (`{"": "x"}` turns `a\t` into `a\tx`).  So: `outcome_map` has no key
    `""` (or maps it to `""`). -/
def RuleNilSafe : Filter.Rule Char → Prop
  | .map m => Filter.lookupD m [] = []
  | _ => True

/-- `RuleImgWf` from the entries of the dict. -/
theorem ruleImgWf_of_values (m : List (Str × Str)) (h : ∀ p ∈ m, p.2 = [] ∨ TokWf p.2) :
    RuleImgWf (.map m) := by
  intro s
  induction m with
  | nil => intro hne; exact absurd rfl hne
  | cons kv m ih =>
    obtain ⟨k, v⟩ := kv
    simp only [Filter.lookupD]
    by_cases hs : s = k
    · simp only [if_pos hs]
      intro hne
      rcases h (k, v) (by simp) with h0 | h0
      · exact absurd h0 hne
      · exact h0
    · simp only [if_neg hs]
      exact ih (fun p hp => h p (by simp [hp]))

/-- `RuleNilSafe` from the keys of the dict. -/
theorem ruleNilSafe_of_keys (m : List (Str × Str)) (h : ∀ p ∈ m, p.1 ≠ []) :
    RuleNilSafe (.map m) := by
  show Filter.lookupD m [] = []
  induction m with
  | nil => rfl
  | cons kv m ih =>
    obtain ⟨k, v⟩ := kv
    have hk : ([] : Str) ≠ k := fun e => h (k, v) (by simp) e.symm
    simp only [Filter.lookupD, if_neg hk]
    exact ih (fun p hp => h p (by simp [hp]))

/-- without a rename (`cue_map` / `outcome_map` not given) both rule
    hypotheses hold for whatever rule the constructor selects. -/
theorem ruleOk_of_noMap (a : Filter.SideArgs Char) (ha : Filter.NoMap a) (r : Filter.Rule Char)
    (hr : Filter.selectRule a = .ok r) : RuleImgWf r ∧ RuleNilSafe r := by
  obtain ⟨k, rm, mp⟩ := a
  simp only [Filter.NoMap] at ha
  subst ha
  cases k <;> cases rm <;> simp [Filter.selectRule] at hr <;> subst hr <;>
    exact ⟨trivial, trivial⟩

/-- a rule with well-formed images maps well-formed token lists to such. -/
theorem apply_tokWf (r : Filter.Rule Char) (hr : RuleImgWf r) (ts : List Str)
    (h : ∀ t ∈ ts, TokWf t) : ∀ t ∈ r.apply ts, TokWf t := by
  intro t ht
  cases r with
  | all => exact h t ht
  | keep S => simp only [Filter.Rule.apply, mem_filter] at ht; exact h t ht.1
  | remove S => simp only [Filter.Rule.apply, mem_filter] at ht; exact h t ht.1
  | map m =>
    simp only [Filter.Rule.apply, mem_filter, mem_map, decide_eq_true_eq] at ht
    obtain ⟨⟨s, _, rfl⟩, hne⟩ := ht
    exact hr s hne

/-- every rule maps the empty list to the empty list. -/
theorem apply_nil (r : Filter.Rule Char) : r.apply [] = [] := by
  cases r <;> rfl

/-- what is written for the outcome column does not depend on whether the
    empty outcome list was read as `[]` or as `[""]`. -/
theorem join_apply_normList (r : Filter.Rule Char) (hr : RuleNilSafe r) (ts : List Str) :
    Text.joinWith US (r.apply (normList ts)) = Text.joinWith US (r.apply ts) := by
  by_cases hts : ts = []
  · subst hts
    rw [apply_nil]
    have hn : normList ([] : List Str) = [[]] := rfl
    rw [hn]
    cases r with
    | all => rfl
    | keep S =>
      by_cases hS : ([] : Str) ∈ S <;> simp [Filter.Rule.apply, hS, Text.joinWith]
    | remove S =>
      by_cases hS : ([] : Str) ∈ S <;> simp [Filter.Rule.apply, hS, Text.joinWith]
    | map m =>
      have h0 : Filter.lookupD m [] = [] := hr
      simp [Filter.Rule.apply, h0, Text.joinWith]
  · simp [normList, hts]

/-- a filtered well-formed event is well formed. -/
theorem filterEvent_wf (rc ro : Filter.Rule Char) (hrc : RuleImgWf rc) (hro : RuleImgWf ro)
    (e e' : TEvent) (h : EventWf e) (hf : filterEvent rc ro e = some e') : EventWf e' := by
  unfold filterEvent at hf
  simp only [] at hf
  split at hf
  · cases hf
  · rename_i hne
    simp only [Option.some.injEq] at hf
    subst hf
    exact ⟨hne, apply_tokWf rc hrc _ h.2.1, apply_tokWf ro hro _ h.2.2⟩

theorem filterMap_filterEvent_wf (rc ro : Filter.Rule Char) (hrc : RuleImgWf rc) (hro : RuleImgWf ro)
    (es : List TEvent) (h : ∀ e ∈ es, EventWf e) :
    ∀ e' ∈ es.filterMap (filterEvent rc ro), EventWf e' := by
  intro e' he'
  obtain ⟨e, he, hf⟩ := mem_filterMap.mp he'
  exact filterEvent_wf rc ro hrc hro e e' (h e he) hf

/-! ## one rendered line through the filter -/

/-- the two columns of a written line. -/
theorem splitOn_tab_renderEvent (e : TEvent) (h : EventOk e) :
    Text.splitOn TAB (renderEvent false e) = [Text.joinWith US e.cues, Text.joinWith US e.outcomes] := by
  obtain ⟨hc, ho⟩ := h
  have tc : TAB ∉ Text.joinWith US e.cues :=
    not_mem_joinWith TAB US e.cues (by decide) (fun t ht => (hc t ht).1)
  have tco : TAB ∉ Text.joinWith US e.outcomes :=
    not_mem_joinWith TAB US e.outcomes (by decide) (fun t ht => (ho t ht).1)
  unfold renderEvent
  simp only [Bool.false_eq_true, if_false, append_nil]
  rw [Text.splitOn_append_sep TAB _ _ tc, Text.splitOn_no_sep TAB _ tco]

/-- **a written line is a line the filter accepts** (exactly two columns). -/
theorem wellFormed_renderEvent (e : TEvent) (h : EventOk e) :
    Filter.WellFormed '\t' (renderEvent false e) := by
  unfold Filter.WellFormed
  rw [filter_splitOn_eq]
  show (Text.splitOn TAB (renderEvent false e)).length = 2
  rw [splitOn_tab_renderEvent e h]; rfl

/-- **the filter commutes with rendering**: filtering the text of a written
    line is rendering the token-level filtered event.  Needs at least one cue
    (an empty cue field would be read as the cue `""`), separator-free
    tokens, and `RuleNilSafe` on the outcome side (see there); no hypothesis on
    the cue rule (with ≥ 1 cue the token `""` never reaches it). -/
theorem applyRules_renderEvent (rc ro : Filter.Rule Char) (hro : RuleNilSafe ro)
    (e : TEvent) (h : EventWf e) :
    Filter.applyRules '\t' '_' rc ro (renderEvent false e)
      = (filterEvent rc ro e).map (renderEvent false) := by
  have hs : Filter.splitOn '\t' (renderEvent false e)
      = [Text.joinWith US e.cues, Text.joinWith US e.outcomes] := by
    rw [filter_splitOn_eq]; exact splitOn_tab_renderEvent e h.ok
  have sc : Filter.splitOn '_' (Text.joinWith US e.cues) = e.cues := by
    rw [filter_splitOn_eq]
    exact Text.splitOn_joinWith US e.cues h.1 (fun t ht => (h.2.1 t ht).2.2.2.2)
  have so : Filter.splitOn '_' (Text.joinWith US e.outcomes) = normList e.outcomes := by
    rw [filter_splitOn_eq]
    exact Text.splitOn_joinWith_norm US e.outcomes (fun t ht => (h.2.2 t ht).2.2.2.2)
  unfold Filter.applyRules
  rw [hs]
  simp only [Filter.processColumns, sc, so, filter_joinWith_eq]
  have hj := join_apply_normList ro hro e.outcomes
  unfold filterEvent
  simp only []
  by_cases hc : rc.apply e.cues = []
  · simp [hc]
  · have hne : (rc.apply e.cues).isEmpty = false := by
      cases hx : rc.apply e.cues with
      | nil => exact absurd hx hc
      | cons a l => rfl
    rw [hne, if_neg hc]
    simp only [Bool.false_eq_true, if_false, Option.map_some, renderEvent, append_nil]
    show some (Text.joinWith US (rc.apply e.cues) ++ TAB :: Text.joinWith US (ro.apply (normList e.outcomes))) = _
    rw [hj]

/-! ## the whole file through the filter -/

/-- the filter on the written lines is `filterEvent` on the events. -/
theorem filterMap_applyRules_render (rc ro : Filter.Rule Char) (hro : RuleNilSafe ro)
    (es : List TEvent) (h : ∀ e ∈ es, EventWf e) :
    (es.map (renderEvent false)).filterMap (Filter.applyRules '\t' '_' rc ro)
      = (es.filterMap (filterEvent rc ro)).map (renderEvent false) := by
  induction es with
  | nil => rfl
  | cons e es ih =>
    have ih' := ih (fun x hx => h x (mem_cons_of_mem _ hx))
    have he := applyRules_renderEvent rc ro hro e (h e (by simp))
    rw [map_cons, filterMap_cons, filterMap_cons, he]
    cases hf : filterEvent rc ro e with
    | none => simpa using ih'
    | some e' => simpa using ih'

/-- **writer → filter on the list of lines**: `filter_event_file` applied to
    the lines `header :: es.map render` returns the lines
    `header :: (es.filterMap filterEvent).map render` — the header is copied
    (`outfile.write(infile.readline())`), for every chunk size ≥ 1. -/
theorem filterEventFile_renderLines (ca oa : Filter.SideArgs Char) (rc ro : Filter.Rule Char)
    (hc : Filter.selectRule ca = .ok rc) (ho : Filter.selectRule oa = .ok ro)
    (hro : RuleNilSafe ro) (chunk : Nat) (hn : 1 ≤ chunk)
    (es : List TEvent) (h : ∀ e ∈ es, EventWf e) :
    Filter.filterEventFile '\t' '_' ca oa chunk (renderLines false es)
      = .ok (renderLines false (es.filterMap (filterEvent rc ro))) := by
  unfold Filter.filterEventFile
  rw [hc, ho]
  simp only [renderLines]
  rw [Filter.filterFile_ok '\t' '_' rc ro chunk hn _ _ (by
    intro l hl
    obtain ⟨e, he, rfl⟩ := mem_map.mp hl
    exact wellFormed_renderEvent e (h e he).ok)]
  rw [filterMap_applyRules_render rc ro hro es h]

/-! ## files: line terminators -/

/-- the lines `filter_event_file` works on: iteration over the text-mode file
    object (universal newlines, a line ends after every `\n`) and, per line,
    `line.strip('\n')` (preprocess.py:505).  The Filter model starts from this
    list. -/
def readLines (content : Str) : List Str := (fileLines content).map stripLF

theorem readLines_unlines (ls : List Str) (h : ∀ l ∈ ls, LF ∉ l ∧ CR ∉ l) :
    readLines (unlines ls) = ls := by
  have hcr : CR ∉ unlines ls := not_mem_unlines CR _ (by decide) (fun l hl => (h l hl).2)
  unfold readLines fileLines
  rw [universalNewlines_id _ hcr, linesKeepEnds_unlines _ (fun l hl => (h l hl).1), map_map]
  conv => rhs; rw [← map_id ls]
  apply map_congr_left
  intro l hl
  exact stripLF_append_LF l (h l hl).1

theorem renderLines_clean (b : Bool) (es : List TEvent) (h : ∀ e ∈ es, EventOk e) :
    ∀ l ∈ renderLines b es, LF ∉ l ∧ CR ∉ l := by
  intro l hl
  simp only [renderLines, mem_cons, mem_map] at hl
  rcases hl with rfl | ⟨e, he, rfl⟩
  · exact renderHeader_clean b
  · obtain ⟨hc, ho⟩ := h e he
    exact ⟨not_mem_renderEvent LF b e (by decide) (by decide) (by decide)
             (fun t ht => (hc t ht).2.1) (fun t ht => (ho t ht).2.1),
           not_mem_renderEvent CR b e (by decide) (by decide) (by decide)
             (fun t ht => (hc t ht).2.2.1) (fun t ht => (ho t ht).2.2.1)⟩

/-- the lines a line-by-line consumer sees of a written file are the lines the
    writer wrote (header first). -/
theorem readLines_renderFile (b : Bool) (es : List TEvent) (h : ∀ e ∈ es, EventOk e) :
    readLines (renderFile b es) = renderLines b es :=
  readLines_unlines _ (renderLines_clean b es h)

/-- **writer → filter on files**: the file the writer wrote, read line by
    line, filtered, every returned line written followed by `\n`
    (`outfile.write(processed_line)`, the job appends `"\n"`): the result is the
    file the writer would have written for the token-level filtered events. -/
theorem filter_written_file (ca oa : Filter.SideArgs Char) (rc ro : Filter.Rule Char)
    (hc : Filter.selectRule ca = .ok rc) (ho : Filter.selectRule oa = .ok ro)
    (hro : RuleNilSafe ro) (chunk : Nat) (hn : 1 ≤ chunk)
    (es : List TEvent) (h : ∀ e ∈ es, EventWf e) :
    ∃ out, Filter.filterEventFile '\t' '_' ca oa chunk (readLines (renderFile false es)) = .ok out ∧
      out = renderLines false (es.filterMap (filterEvent rc ro)) ∧
      unlines out = renderFile false (es.filterMap (filterEvent rc ro)) := by
  refine ⟨_, ?_, rfl, rfl⟩
  rw [readLines_renderFile false es (fun e he => (h e he).ok)]
  exact filterEventFile_renderLines ca oa rc ro hc ho hro chunk hn es h

/-- what the reader parses from a written file, for `EventWf` events. -/
theorem parse_render (b : Bool) (es : List TEvent) (h : ∀ e ∈ es, EventWf e) :
    parseFile 0 1 (renderFile b es) = some (es.map normalise) := by
  rw [parseFile_renderFile b 0 1 es (fun e he => (h e he).ok), stride_zero_one]
  congr 1
  apply map_congr_left
  intro e he
  exact (h e he).norm

/-- **writer → filter → reader → learner.** -/
theorem writer_filter_reader_learner {R : Type} [CommRing R] (p : DupPolicy)
    (α : Str → R) (β₁ β₂ lam : R)
    (ca oa : Filter.SideArgs Char) (rc ro : Filter.Rule Char)
    (hc : Filter.selectRule ca = .ok rc) (ho : Filter.selectRule oa = .ok ro)
    (hrc : RuleImgWf rc) (hro : RuleImgWf ro) (hnil : RuleNilSafe ro)
    (chunk : Nat) (hn : 1 ≤ chunk)
    (es es' : List TEvent) (h : ∀ e ∈ es, EventWf e)
    (hp : applyPolicyAll p ((es.filterMap (filterEvent rc ro)).map normalise) = some es') :
    ∃ out parsed W,
      Filter.filterEventFile '\t' '_' ca oa chunk (readLines (renderFile false es)) = .ok out ∧
      out = renderLines false (es.filterMap (filterEvent rc ro)) ∧
      parseFile 0 1 (unlines out) = some parsed ∧
      parsed = (es.filterMap (filterEvent rc ro)).map normalise ∧
      dictNdl p α β₁ β₂ lam [] parsed = some W ∧
      wdAbs W = rwLearn α β₁ β₂ lam (wdAbs ([] : WDict Str Str R)) es' := by
  obtain ⟨out, hout, hlines, hfile⟩ := filter_written_file ca oa rc ro hc ho hnil chunk hn es h
  obtain ⟨W, hW, habs⟩ := Pyndl.dictNdl_eq_spec p α β₁ β₂ lam []
    ((es.filterMap (filterEvent rc ro)).map normalise) es' hp
  refine ⟨out, _, W, hout, hlines, ?_, rfl, hW, habs⟩
  rw [hfile]
  exact parse_render false _ (filterMap_filterEvent_wf rc ro hrc hro es h)

/-! ## the creator in front -/

/-- an event of the creation model as an event of the text format: the line
    `"{}\t{}\n".format("_".join(cues), "_".join(outcomes))` (preprocess.py:107,
    :140) is `renderEvent false` of it followed by `\n`. -/
def toTEvent (ev : Create.Ev Create.Word) : TEvent := ⟨ev.cues, ev.outcomes⟩

open Create in
theorem joinHash_length (w : Word) (ws : List Word) : w.length ≤ (joinHash (w :: ws)).length := by
  cases ws with
  | nil => simp [joinHash]
  | cons v vs => simp [joinHash]

open Create in
/-- **creation never writes an event without cues** when the n-gram size is at
    most 3 (`bigrams_to_word`, `trigrams_to_word`: the phrase `#w…#` of a
    non-empty occurrence has at least 3 characters) or with `word_to_word`
    cues (`if not cues: continue`, preprocess.py:135).  For a larger n-gram
    size the real `ngrams_to_word` does write `"\t" + occurrence` for a phrase
    shorter than `n` (the test `not ngrams` on a generator object is never
    true), so the bound is needed. -/
theorem processWords_cues_ne (o : Options) (hn : ∀ n, o.cue = .ngrams n → n ≤ 3) (words : List Word)
    (hw : ∀ w ∈ words, CleanWord w) : ∀ ev ∈ processWords o words, ev.cues ≠ [] := by
  intro ev hev
  simp only [processWords, processOccurrences] at hev
  have hocc := genOccurrences_mem o.event o.cue words
  cases hcue : o.cue with
  | ngrams n =>
    have hn3 := hn n hcue
    rw [hcue] at hev hocc
    simp only [List.mem_filterMap] at hev
    obtain ⟨occ, hmem, hsome⟩ := hev
    have htoks : ∀ tok ∈ occ.1 ++ occ.2, CleanWord tok := fun tok ht => hw tok (hocc occ hmem tok ht)
    simp only [ngramsToWord1] at hsome
    split at hsome
    · simp at hsome
    · rename_i hne
      have hgr : ngrams n (phraseString (occ.1 ++ occ.2)) ≠ [] := by
        intro h0
        have hl := ngrams_length n (phraseString (occ.1 ++ occ.2))
        rw [h0] at hl
        cases hx : occ.1 ++ occ.2 with
        | nil => rw [hx] at hne; simp at hne
        | cons w ws =>
          have hw1 : 1 ≤ w.length := by
            have := (htoks w (by rw [hx]; simp)).1
            cases w with
            | nil => exact absurd rfl this
            | cons a l => simp
          have hj := joinHash_length w ws
          rw [hx] at hl
          simp only [phraseString, List.length_cons, List.length_append, List.length_nil] at hl
          omega
      split at hsome
      · simp only [Option.some.injEq] at hsome
        subst hsome
        intro h0
        apply hgr
        cases hg : ngrams n (phraseString (occ.1 ++ occ.2)) with
        | nil => rfl
        | cons g gs =>
          have : g ∈ Pyndl.Create.dedup (ngrams n (phraseString (occ.1 ++ occ.2))) := by
            rw [hg]; exact List.mem_eraseDups.mpr List.mem_cons_self
          simp only [] at h0
          rw [h0] at this
          simp at this
      · simp only [Option.some.injEq] at hsome
        subst hsome
        exact hgr
  | wordToWord =>
    rw [hcue] at hev
    simp only [List.mem_filterMap] at hev
    obtain ⟨occ, hmem, hsome⟩ := hev
    simp only [wordCues1] at hsome
    split at hsome
    · simp at hsome
    · rename_i hne
      have hc1 : occ.1 ≠ [] := by
        intro h0; rw [h0] at hne; simp at hne
      split at hsome
      · simp only [Option.some.injEq] at hsome
        subst hsome
        intro h0
        cases hg : occ.1 with
        | nil => exact hc1 hg
        | cons g gs =>
          have : g ∈ Pyndl.Create.dedup occ.1 := by
            rw [hg]; exact List.mem_eraseDups.mpr List.mem_cons_self
          simp only [] at h0
          rw [h0] at this
          simp at this
      · simp only [Option.some.injEq] at hsome
        subst hsome
        exact hc1

open Create in
theorem createEvents_cues_ne (t : Tables) (o : Options) (hn : ∀ n, o.cue = .ngrams n → n ≤ 3)
    (rawLines : List (List Char)) : ∀ ev ∈ createEvents t o rawLines, ev.cues ≠ [] := by
  intro ev hev
  simp only [createEvents] at hev
  split at hev
  · refine runLine_inv (processWords o) CleanWord (fun ev => ev.cues ≠ [])
      (processWords_cues_ne o hn) _ ?_ ev hev
    intro l hl
    simp only [List.mem_map] at hl
    obtain ⟨raw, _, rfl⟩ := hl
    exact lineWords_clean
  · refine runDocument_inv (processWords o) CleanWord (fun ev => ev.cues ≠ [])
      (processWords_cues_ne o hn) _ ?_ ev hev
    intro l hl
    simp only [List.mem_map] at hl
    obtain ⟨raw, _, rfl⟩ := hl
    exact docLineElems_clean

open Create in
/-- **creation → text format**: every created event is in the domain of the
    composition.  Hypotheses: the n-gram size is 1, 2 or 3; no raw corpus line
    contains LF or CR; with `lower_case=True` no entry of the Python-supplied
    lower-casing table contains LF or CR. -/
theorem createEvents_eventWf (t : Tables) (o : Options)
    (hn : ∀ n, o.cue = .ngrams n → 1 ≤ n ∧ n ≤ 3) (rawLines : List (List Char))
    (hraw : ∀ raw ∈ rawLines, '\n' ∉ raw ∧ '\r' ∉ raw)
    (hlower : o.lowerCase = true → ∀ p ∈ t.lower, '\n' ∉ p.2 ∧ '\r' ∉ p.2) :
    ∀ ev ∈ createEvents t o rawLines, EventWf (toTEvent ev) := by
  intro ev hev
  obtain ⟨c1, c2⟩ := createEvents_clean t o (fun n h => (hn n h).1) rawLines ev hev
  obtain ⟨l1, l2⟩ := createEvents_free_raw (d := '\n') (by decide) (by decide) t o
    (fun hl p hp => (hlower hl p hp).1) rawLines (fun raw hr => (hraw raw hr).1) ev hev
  obtain ⟨r1, r2⟩ := createEvents_free_raw (d := '\r') (by decide) (by decide) t o
    (fun hl p hp => (hlower hl p hp).2) rawLines (fun raw hr => (hraw raw hr).2) ev hev
  refine ⟨createEvents_cues_ne t o (fun n h => (hn n h).2) rawLines ev hev, ?_, ?_⟩
  · intro tok ht
    obtain ⟨hne, hc⟩ := c1 tok ht
    exact ⟨hne, fun h => (hc _ h).2.2 rfl, l1 tok ht, r1 tok ht, fun h => (hc _ h).2.1 rfl⟩
  · intro tok ht
    obtain ⟨hne, hc⟩ := c2 tok ht
    exact ⟨hne, fun h => (isSpecial_false (hc _ h).2).2.2 rfl, l2 tok ht, r2 tok ht,
      fun h => (isSpecial_false (hc _ h).2).2.1 rfl⟩

/-- **corpus → creator → writer → filter → reader → learner.** -/
theorem pipeline {R : Type} [CommRing R] (p : DupPolicy) (α : Str → R) (β₁ β₂ lam : R)
    (t : Create.Tables) (o : Create.Options)
    (hng : ∀ n, o.cue = .ngrams n → 1 ≤ n ∧ n ≤ 3) (rawLines : List (List Char))
    (hraw : ∀ raw ∈ rawLines, '\n' ∉ raw ∧ '\r' ∉ raw)
    (hlower : o.lowerCase = true → ∀ p ∈ t.lower, '\n' ∉ p.2 ∧ '\r' ∉ p.2)
    (ca oa : Filter.SideArgs Char) (rc ro : Filter.Rule Char)
    (hc : Filter.selectRule ca = .ok rc) (ho : Filter.selectRule oa = .ok ro)
    (hrc : RuleImgWf rc) (hro : RuleImgWf ro) (hnil : RuleNilSafe ro)
    (chunk : Nat) (hn : 1 ≤ chunk) (es' : List TEvent)
    (hp : applyPolicyAll p
      ((((Create.createEvents t o rawLines).map toTEvent).filterMap (filterEvent rc ro)).map normalise)
        = some es') :
    ∃ out parsed W,
      Filter.filterEventFile '\t' '_' ca oa chunk
        (readLines (renderFile false ((Create.createEvents t o rawLines).map toTEvent))) = .ok out ∧
      parseFile 0 1 (unlines out) = some parsed ∧
      parsed = (((Create.createEvents t o rawLines).map toTEvent).filterMap
                  (filterEvent rc ro)).map normalise ∧
      dictNdl p α β₁ β₂ lam [] parsed = some W ∧
      wdAbs W = rwLearn α β₁ β₂ lam (wdAbs ([] : WDict Str Str R)) es' := by
  have hwf : ∀ e ∈ (Create.createEvents t o rawLines).map toTEvent, EventWf e := by
    intro e he
    obtain ⟨ev, hev, rfl⟩ := mem_map.mp he
    exact createEvents_eventWf t o hng rawLines hraw hlower ev hev
  obtain ⟨out, parsed, W, h1, _, h3, h4, h5, h6⟩ :=
    writer_filter_reader_learner p α β₁ β₂ lam ca oa rc ro hc ho hrc hro hnil chunk hn _ es' hwf hp
  exact ⟨out, parsed, W, h1, h3, h4, h5, h6⟩

end Pyndl.Pipeline
