/-
  PyndlProofs.ScalarBridge — the driver's scalar type `TR` (PyndlModel/Scalar.lean:
  an exact `Rat` plus the largest number of mantissa bits in its computation
  history) is NOT a ring: the history of `a - a` is not that of `0`.  The
  theorems are over `[CommRing R]`, the driver runs the same polymorphic
  definitions at `R := TR`.  What ties the two: the VALUE component commutes
  with every model function,

      (f_TR x).v = f_ℚ (x.map (·.v)),

  i.e. what the driver prints (`TR.toStr` prints `.v`) is what the same
  definition computes over `ℚ`, to which the ring theorems apply.  This is
  parametricity of the definitions in `+ - * 0`; it is proved here BY HAND, by
  structural induction, for a general `ScalarHom φ : R → S` (a map that
  commutes with `0 + - *`) and then instantiated with `φ := TR.v`
  (`TR.v_hom`: `+ - *` of `TR` act componentwise on `.v`, by `rfl`).

  Proved (each as `…_hom` for any `ScalarHom`, and as `…_v` for `TR → Rat`):
    RW.lean      sumOver, addCues, rwRow, rwStep, rwLearn            (the specification)
                 alGet, alSet, wdRow, wdSetRow, dictRow, dictStep, dictNdl   (the model of dict_ndl)
    Kernel.lean  kernelRowEvent, kernelEvent, kernelFile, kernelPart,
                 learnThreadingSeq, learnOpenmpSeq, execSteps
    Ndl.lean     learnOpenmpSeq32, LW.get, extendVals, ndlCore, ndlModel, ndlCall,
                 dictFromLW, lwFromDict                                 (the model of ndl.ndl, hand-overs)
    WH.lean      summedOut, summedCue, realAssoc, realUpdate,
                 whB2RRowEvent, whR2RRowEvent, whR2BRowEvent, learnOmpWith (the Widrow–Hoff row steps)
    Activation   actColumn, activationMatrix, dictRowAct
  TRUSTED (parametricity, not proved here): `whModel` / `whNumpyModel` /
  `dictWhModel` above the row steps (label handling + the row steps proved
  here), `activationMatrixMP`, the chain runners (`chainRun`, `whChainRun`,
  `ndlChainMeta`: compositions of the functions above).  `Corr`, `Band`,
  `Corpus` do not run at `TR` (they use `Rat` / `Float` directly).

  No Mathlib: everything is `induction` / `simp` over `List` and `Array`.
-/
import PyndlModel
import PyndlDriver.ModelCopies

set_option linter.unusedSectionVars false
set_option linter.unusedVariables false

namespace Pyndl

/-- `φ : R → S` commutes with the four operations the model definitions use -/
structure ScalarHom {R S : Type} [Add R] [Sub R] [Mul R] [Zero R] [Add S] [Sub S] [Mul S] [Zero S]
    (φ : R → S) : Prop where
  zero : φ 0 = 0
  add : ∀ a b, φ (a + b) = φ a + φ b
  sub : ∀ a b, φ (a - b) = φ a - φ b
  mul : ∀ a b, φ (a * b) = φ a * φ b

/-- **`TR`'s `+ - * 0` act componentwise on the value** -/
theorem TR.v_hom : ScalarHom TR.v where
  zero := rfl
  add _ _ := rfl
  sub _ _ := rfl
  mul _ _ := rfl

section Hom
variable {R S : Type} [Add R] [Sub R] [Mul R] [Zero R] [Add S] [Sub S] [Mul S] [Zero S]
variable {φ : R → S} (h : ScalarHom φ)
include h

/-! ## generic folds -/

/-- a left fold that adds `g x` per element commutes with `φ` -/
theorem foldl_add_hom {α : Type} (g : α → R) (g' : α → S) (hg : ∀ x, φ (g x) = g' x) (xs : List α) (acc : R) :
    φ (xs.foldl (fun acc x => acc + g x) acc) = xs.foldl (fun acc x => acc + g' x) (φ acc) := by
  induction xs generalizing acc with
  | nil => rfl
  | cons x xs ih => simp only [List.foldl_cons]; rw [ih, h.add, hg]

theorem ite_hom (b : Bool) (x y : R) : φ (if b then x else y) = if b then φ x else φ y := by
  cases b <;> rfl

/-! ## RW.lean: the specification -/

section Spec
variable {ι κ : Type} [DecidableEq ι] [DecidableEq κ]

theorem sumOver_hom (w : ι → R) (cs : List ι) : φ (sumOver w cs) = sumOver (fun c => φ (w c)) cs := by
  unfold sumOver
  rw [foldl_add_hom h (fun c => w c) (fun c => φ (w c)) (fun _ => rfl), h.zero]

omit h in
theorem upd_comp (f : R → S) (w : ι → R) (c : ι) (v : R) :
    (fun y => f (upd w c v y)) = upd (fun y => f (w y)) c (f v) := by
  funext y
  unfold upd
  by_cases hy : y = c <;> simp [hy]

theorem addCues_hom_fn (α : ι → R) (u : R) (w : ι → R) (cs : List ι) :
    (fun x => φ (addCues α u w cs x)) = addCues (fun c => φ (α c)) (φ u) (fun c => φ (w c)) cs := by
  unfold addCues
  induction cs generalizing w with
  | nil => rfl
  | cons c cs ih =>
    simp only [List.foldl_cons]
    rw [ih, upd_comp, h.add, h.mul]

theorem addCues_hom (α : ι → R) (u : R) (w : ι → R) (cs : List ι) (x : ι) :
    φ (addCues α u w cs x) = addCues (fun c => φ (α c)) (φ u) (fun c => φ (w c)) cs x :=
  congrFun (addCues_hom_fn h α u w cs) x

theorem rwRow_hom (α : ι → R) (β₁ β₂ lam : R) (w : ι → R) (cs : List ι) (p : Bool) (x : ι) :
    φ (rwRow α β₁ β₂ lam w cs p x) =
      rwRow (fun c => φ (α c)) (φ β₁) (φ β₂) (φ lam) (fun c => φ (w c)) cs p x := by
  unfold rwRow
  rw [addCues_hom h]
  cases p
  · simp only [Bool.false_eq_true, if_false, h.mul, h.sub, h.zero, sumOver_hom h]
  · simp only [if_true, h.mul, h.sub, sumOver_hom h]

theorem rwStep_hom (α : ι → R) (β₁ β₂ lam : R) (W : κ → ι → R) (e : Event ι κ) (o : κ) (c : ι) :
    φ (rwStep α β₁ β₂ lam W e o c) =
      rwStep (fun c => φ (α c)) (φ β₁) (φ β₂) (φ lam) (fun o c => φ (W o c)) e o c := by
  unfold rwStep
  exact rwRow_hom h α β₁ β₂ lam (W o) e.cues _ c

theorem rwLearn_hom_fn (α : ι → R) (β₁ β₂ lam : R) (W : κ → ι → R) (es : List (Event ι κ)) :
    (fun o c => φ (rwLearn α β₁ β₂ lam W es o c)) =
      rwLearn (fun c => φ (α c)) (φ β₁) (φ β₂) (φ lam) (fun o c => φ (W o c)) es := by
  unfold rwLearn
  induction es generalizing W with
  | nil => rfl
  | cons e es ih =>
    simp only [List.foldl_cons]
    rw [ih]
    congr 1
    funext o c
    exact rwStep_hom h α β₁ β₂ lam W e o c

/-- **the specification commutes with the projection** -/
theorem rwLearn_hom (α : ι → R) (β₁ β₂ lam : R) (W : κ → ι → R) (es : List (Event ι κ)) (o : κ) (c : ι) :
    φ (rwLearn α β₁ β₂ lam W es o c) =
      rwLearn (fun c => φ (α c)) (φ β₁) (φ β₂) (φ lam) (fun o c => φ (W o c)) es o c :=
  congrFun (congrFun (rwLearn_hom_fn h α β₁ β₂ lam W es) o) c

end Spec

/-! ## arrays -/

theorem getD_map_hom (w : Array R) (i : Nat) : (w.map φ).getD i 0 = φ (w.getD i 0) := by
  simp only [Array.getD_eq_getD_getElem?, Array.getElem?_map]
  cases w[i]? with
  | none => exact h.zero.symm
  | some x => rfl

omit h in
theorem setIfInBounds_map (f : R → S) (w : Array R) (i : Nat) (v : R) :
    (w.setIfInBounds i v).map f = (w.map f).setIfInBounds i (f v) := by
  apply Array.ext
  · simp
  · intro j h1 h2
    have hj : j < w.size := by simpa using h1
    simp only [Array.getElem_map]
    rw [Array.getElem_setIfInBounds (by simpa using hj), Array.getElem_setIfInBounds (by simpa using hj)]
    split
    · rfl
    · simp

/-- a fold of in-place cell updates `w[i c] += d` commutes with `φ` -/
theorem foldl_cellAdd_hom {α : Type} (idx : α → Nat) (d : α → R) (d' : α → S) (hd : ∀ x, φ (d x) = d' x)
    (xs : List α) (w : Array R) :
    (xs.foldl (fun w x => w.setIfInBounds (idx x) (w.getD (idx x) 0 + d x)) w).map φ =
      xs.foldl (fun w x => w.setIfInBounds (idx x) (w.getD (idx x) 0 + d' x)) (w.map φ) := by
  induction xs generalizing w with
  | nil => rfl
  | cons x xs ih =>
    simp only [List.foldl_cons]
    rw [ih, setIfInBounds_map, h.add, hd, getD_map_hom h]

/-- a fold whose step commutes with `Array.map φ` commutes with it -/
theorem foldl_map_hom {α : Type} (f : Array R → α → Array R) (f' : Array S → α → Array S)
    (hf : ∀ w x, (f w x).map φ = f' (w.map φ) x) (xs : List α) (w : Array R) :
    (xs.foldl f w).map φ = xs.foldl f' (w.map φ) := by
  induction xs generalizing w with
  | nil => rfl
  | cons x xs ih => simp only [List.foldl_cons]; rw [ih, hf]

/-! ## Kernel.lean: the compiled Rescorla–Wagner kernel -/

theorem kernelRowEvent_hom (alpha β₁ β₂ lam : R) (n : Nat) (w : Array R) (o : Nat) (cues outs : List Nat) :
    (kernelRowEvent alpha β₁ β₂ lam n w o cues outs).map φ =
      kernelRowEvent (φ alpha) (φ β₁) (φ β₂) (φ lam) n (w.map φ) o cues outs := by
  unfold kernelRowEvent
  simp only []
  have ha : φ (cues.foldl (fun acc c => acc + w.getD (flatIdx n o c) 0) 0) =
      cues.foldl (fun acc c => acc + (w.map φ).getD (flatIdx n o c) 0) 0 := by
    rw [foldl_add_hom h (fun c => w.getD (flatIdx n o c) 0) (fun c => (w.map φ).getD (flatIdx n o c) 0)
      (fun c => (getD_map_hom h w _).symm), h.zero]
  rw [foldl_cellAdd_hom h (fun c => flatIdx n o c) (fun _ => alpha * _) (fun _ => φ alpha * _) (fun _ => h.mul _ _)]
  congr 2
  funext w' c
  congr 2
  cases isElementOf o outs
  · simp only [Bool.false_eq_true, if_false, h.mul, h.sub, h.zero, ha]
  · simp only [if_true, h.mul, h.sub, ha]

theorem kernelEvent_hom (alpha β₁ β₂ lam : R) (n : Nat) (rows : List Nat) (w : Array R) (e : Event Nat Nat) :
    (kernelEvent alpha β₁ β₂ lam n rows w e).map φ =
      kernelEvent (φ alpha) (φ β₁) (φ β₂) (φ lam) n rows (w.map φ) e := by
  unfold kernelEvent
  exact foldl_map_hom h _ _ (fun w o => kernelRowEvent_hom h alpha β₁ β₂ lam n w o e.cues e.outcomes) rows w

theorem kernelFile_hom (alpha β₁ β₂ lam : R) (n : Nat) (rows : List Nat) (w : Array R) (es : List (Event Nat Nat)) :
    (kernelFile alpha β₁ β₂ lam n rows w es).map φ =
      kernelFile (φ alpha) (φ β₁) (φ β₂) (φ lam) n rows (w.map φ) es := by
  unfold kernelFile
  exact foldl_map_hom h _ _ (fun w e => kernelEvent_hom h alpha β₁ β₂ lam n rows w e) es w

theorem kernelPart_hom (alpha β₁ β₂ lam : R) (n : Nat) (files : List (List (Event Nat Nat))) (w : Array R)
    (rows : List Nat) :
    (kernelPart alpha β₁ β₂ lam n files w rows).map φ =
      kernelPart (φ alpha) (φ β₁) (φ β₂) (φ lam) n files (w.map φ) rows := by
  unfold kernelPart
  exact foldl_map_hom h _ _ (fun w es => kernelFile_hom h alpha β₁ β₂ lam n rows w es) files w

theorem execSteps_hom (alpha β₁ β₂ lam : R) (n : Nat) (w : Array R) (s : List MicroStep) :
    (execSteps alpha β₁ β₂ lam n w s).map φ = execSteps (φ alpha) (φ β₁) (φ β₂) (φ lam) n (w.map φ) s := by
  unfold execSteps
  exact foldl_map_hom h _ _ (fun w st => kernelRowEvent_hom h alpha β₁ β₂ lam n w st.row st.ev.cues st.ev.outcomes) s w

theorem learnThreadingSeq_hom (alpha β₁ β₂ lam : R) (n : Nat) (files : List (List (Event Nat Nat)))
    (allOut : List Nat) (perJob : Nat) (w : Array R) :
    (learnThreadingSeq alpha β₁ β₂ lam n files allOut perJob w).map φ =
      learnThreadingSeq (φ alpha) (φ β₁) (φ β₂) (φ lam) n files allOut perJob (w.map φ) := by
  unfold learnThreadingSeq
  exact foldl_map_hom h _ _ (fun w rows => kernelPart_hom h alpha β₁ β₂ lam n files w rows) _ w

theorem learnOpenmpSeq_hom (alpha β₁ β₂ lam : R) (n : Nat) (files : List (List (Event Nat Nat)))
    (allOut : List Nat) (chunk : Nat) (w : Array R) :
    (learnOpenmpSeq alpha β₁ β₂ lam n files allOut chunk w).map φ =
      learnOpenmpSeq (φ alpha) (φ β₁) (φ β₂) (φ lam) n files allOut chunk (w.map φ) := by
  unfold learnOpenmpSeq
  exact foldl_map_hom h _ _ (fun w f =>
    foldl_map_hom h _ _ (fun w rows => kernelFile_hom h alpha β₁ β₂ lam n rows w f) _ w) files w

theorem learnOpenmpSeq32_hom (alpha β₁ β₂ lam : R) (n : Nat) (files : List (List (Event Nat Nat)))
    (allOut : List Nat) (chunk : Nat) (w : Array R) :
    (learnOpenmpSeq32 alpha β₁ β₂ lam n files allOut chunk w).map φ =
      learnOpenmpSeq32 (φ alpha) (φ β₁) (φ β₂) (φ lam) n files allOut chunk (w.map φ) := by
  unfold learnOpenmpSeq32
  exact foldl_map_hom h _ _ (fun w f =>
    foldl_map_hom h _ _ (fun w rows => kernelFile_hom h alpha β₁ β₂ lam n rows w f) _ w) files w

/-! ## RW.lean: the model of `dict_ndl` (nested association lists) -/

section Dict
variable {ι κ : Type} [DecidableEq ι] [DecidableEq κ]

/-- a `defaultdict(float)` row with `f` applied to every value -/
def mapRow (f : R → S) (row : List (ι × R)) : List (ι × S) := row.map (fun kv => (kv.1, f kv.2))

/-- a weight dict with `f` applied to every value -/
def mapWD (f : R → S) (W : WDict ι κ R) : WDict ι κ S := W.map (fun kr => (kr.1, mapRow f kr.2))

theorem alGet_hom (row : List (ι × R)) (c : ι) : φ (alGet row c) = alGet (mapRow φ row) c := by
  induction row with
  | nil => exact h.zero
  | cons kv row ih =>
    obtain ⟨k, x⟩ := kv
    simp only [alGet, mapRow, List.map_cons]
    by_cases hk : k = c
    · simp only [hk, if_true]
    · simp only [hk, if_false]; exact ih

omit h in
theorem alSet_map (f : R → S) (row : List (ι × R)) (c : ι) (v : R) :
    mapRow f (alSet row c v) = alSet (mapRow f row) c (f v) := by
  induction row with
  | nil => rfl
  | cons kv row ih =>
    obtain ⟨k, x⟩ := kv
    simp only [alSet, mapRow, List.map_cons]
    by_cases hk : k = c
    · simp only [hk, if_true, List.map_cons]
    · simp only [hk, if_false, List.map_cons]
      exact congrArg _ ih

omit h in
theorem wdRow_map (f : R → S) (W : WDict ι κ R) (o : κ) : mapRow f (wdRow W o) = wdRow (mapWD f W) o := by
  induction W with
  | nil => rfl
  | cons kr W ih =>
    obtain ⟨k, r⟩ := kr
    simp only [wdRow, mapWD, List.map_cons]
    by_cases hk : k = o
    · simp only [hk, if_true]
    · simp only [hk, if_false]; exact ih

omit h in
theorem wdSetRow_map (f : R → S) (W : WDict ι κ R) (o : κ) (r : List (ι × R)) :
    mapWD f (wdSetRow W o r) = wdSetRow (mapWD f W) o (mapRow f r) := by
  induction W with
  | nil => rfl
  | cons kr W ih =>
    obtain ⟨k, x⟩ := kr
    simp only [wdSetRow, mapWD, List.map_cons]
    by_cases hk : k = o
    · simp only [hk, if_true, List.map_cons]
    · simp only [hk, if_false, List.map_cons]
      exact congrArg _ ih

theorem wdAbs_hom (W : WDict ι κ R) (o : κ) (c : ι) : φ (wdAbs W o c) = wdAbs (mapWD φ W) o c := by
  unfold wdAbs
  rw [alGet_hom h, wdRow_map]

theorem dictRow_hom (α : ι → R) (β₁ β₂ lam : R) (row : List (ι × R)) (cs : List ι) (p : Bool) :
    mapRow φ (dictRow α β₁ β₂ lam row cs p) =
      dictRow (fun c => φ (α c)) (φ β₁) (φ β₂) (φ lam) (mapRow φ row) cs p := by
  unfold dictRow
  simp only []
  have ha : φ (cs.foldl (fun acc c => acc + alGet row c) 0) =
      cs.foldl (fun acc c => acc + alGet (mapRow φ row) c) 0 := by
    rw [foldl_add_hom h (fun c => alGet row c) (fun c => alGet (mapRow φ row) c) (fun c => alGet_hom h row c), h.zero]
  have hu : ∀ (u : R) (u' : S), φ u = u' → ∀ r : List (ι × R),
      mapRow φ (cs.foldl (fun r c => alSet r c (alGet r c + α c * u)) r) =
        cs.foldl (fun r c => alSet r c (alGet r c + φ (α c) * u')) (mapRow φ r) := by
    intro u u' hu'
    induction cs with
    | nil => intro r; rfl
    | cons c cs ih =>
      intro r
      simp only [List.foldl_cons]
      have ha' : φ (cs.foldl (fun acc c => acc + alGet row c) 0) =
          cs.foldl (fun acc c => acc + alGet (mapRow φ row) c) 0 := by
        rw [foldl_add_hom h (fun c => alGet row c) (fun c => alGet (mapRow φ row) c) (fun c => alGet_hom h row c), h.zero]
      rw [ih ha', alSet_map, h.add, h.mul, alGet_hom h, hu']
  cases p
  · simp only [Bool.false_eq_true, if_false]
    exact hu _ _ (by rw [h.mul, h.sub, h.zero, ha]) row
  · simp only [if_true]
    exact hu _ _ (by rw [h.mul, h.sub, ha]) row

/-- the state of `dict_ndl` with `f` applied to every weight -/
def mapDS (f : R → S) (s : DictState ι κ R) : DictState ι κ S := ⟨mapWD f s.W, s.all⟩

theorem dictStep_hom (α : ι → R) (β₁ β₂ lam : R) (s : DictState ι κ R) (e : Event ι κ) :
    mapDS φ (dictStep α β₁ β₂ lam s e) =
      dictStep (fun c => φ (α c)) (φ β₁) (φ β₂) (φ lam) (mapDS φ s) e := by
  unfold dictStep mapDS
  simp only []
  congr 1
  generalize unionNew s.all e.outcomes = all'
  generalize s.W = W
  induction all' generalizing W with
  | nil => rfl
  | cons o os ih =>
    simp only [List.foldl_cons]
    rw [ih, wdSetRow_map, dictRow_hom h, wdRow_map]

theorem dictNdl_go_hom (p : DupPolicy) (α : ι → R) (β₁ β₂ lam : R) (s : DictState ι κ R) (es : List (Event ι κ)) :
    (dictNdl.go p α β₁ β₂ lam s es).map (mapWD φ) =
      dictNdl.go p (fun c => φ (α c)) (φ β₁) (φ β₂) (φ lam) (mapDS φ s) es := by
  induction es generalizing s with
  | nil => rfl
  | cons e es ih =>
    simp only [dictNdl.go]
    cases applyPolicy p e with
    | none => rfl
    | some e' => simp only []; rw [ih, dictStep_hom h]

omit h in
theorem mapWD_keys (f : R → S) (W : WDict ι κ R) : (mapWD f W).map (·.1) = W.map (·.1) := by
  unfold mapWD
  rw [List.map_map]
  rfl

/-- **the model of `dict_ndl` commutes with the projection** (same `ValueError`s,
    same keys in the same order, projected values) -/
theorem dictNdl_hom (p : DupPolicy) (α : ι → R) (β₁ β₂ lam : R) (W : WDict ι κ R) (es : List (Event ι κ)) :
    (dictNdl p α β₁ β₂ lam W es).map (mapWD φ) =
      dictNdl p (fun c => φ (α c)) (φ β₁) (φ β₂) (φ lam) (mapWD φ W) es := by
  unfold dictNdl
  rw [dictNdl_go_hom h]
  congr 1
  unfold dictInit mapDS
  simp only [mapWD_keys]

end Dict

/-! ## WH.lean: the Widrow–Hoff row steps -/

theorem summedOut_hom (ov : Array R) (nOutDims d : Nat) (outs : List Nat) :
    φ (summedOut ov nOutDims d outs) = summedOut (ov.map φ) nOutDims d outs := by
  unfold summedOut
  rw [foldl_add_hom h (fun o => ov.getD (nOutDims * o + d) 0) (fun o => (ov.map φ).getD (nOutDims * o + d) 0)
    (fun o => (getD_map_hom h ov _).symm), h.zero]

theorem summedCue_hom (cv : Array R) (nCueDims kk : Nat) (cues : List Nat) :
    φ (summedCue cv nCueDims kk cues) = summedCue (cv.map φ) nCueDims kk cues := by
  unfold summedCue
  rw [foldl_add_hom h (fun c => cv.getD (nCueDims * c + kk) 0) (fun c => (cv.map φ).getD (nCueDims * c + kk) 0)
    (fun c => (getD_map_hom h cv _).symm), h.zero]

theorem whB2RRowEvent_hom (eta : R) (ov : Array R) (nOutDims nCues : Nat) (w : Array R) (d : Nat)
    (cues outs : List Nat) :
    (whB2RRowEvent eta ov nOutDims nCues w d cues outs).map φ =
      whB2RRowEvent (φ eta) (ov.map φ) nOutDims nCues (w.map φ) d cues outs := by
  unfold whB2RRowEvent
  simp only []
  have ha : φ (cues.foldl (fun acc c => acc + w.getD (flatIdx nCues d c) 0) 0) =
      cues.foldl (fun acc c => acc + (w.map φ).getD (flatIdx nCues d c) 0) 0 := by
    rw [foldl_add_hom h (fun c => w.getD (flatIdx nCues d c) 0) (fun c => (w.map φ).getD (flatIdx nCues d c) 0)
      (fun c => (getD_map_hom h w _).symm), h.zero]
  rw [foldl_cellAdd_hom h (fun c => flatIdx nCues d c) (fun _ => eta * _) (fun _ => φ eta * _) (fun _ => h.mul _ _)]
  rw [h.sub, ha, summedOut_hom h]

theorem realAssoc_hom (cv : Array R) (nCueDims : Nat) (w : Array R) (row : Nat) (cues : List Nat) :
    φ (realAssoc cv nCueDims w row cues) = realAssoc (cv.map φ) nCueDims (w.map φ) row cues := by
  unfold realAssoc
  rw [foldl_add_hom h (fun kk => summedCue cv nCueDims kk cues * w.getD (flatIdx nCueDims row kk) 0)
    (fun kk => summedCue (cv.map φ) nCueDims kk cues * (w.map φ).getD (flatIdx nCueDims row kk) 0)
    (fun kk => by rw [h.mul, summedCue_hom h, getD_map_hom h]), h.zero]

theorem realUpdate_hom (cv : Array R) (nCueDims : Nat) (u : R) (w : Array R) (row : Nat) (cues : List Nat) :
    (realUpdate cv nCueDims u w row cues).map φ = realUpdate (cv.map φ) nCueDims (φ u) (w.map φ) row cues := by
  unfold realUpdate
  exact foldl_cellAdd_hom h (fun kk => flatIdx nCueDims row kk) (fun kk => u * summedCue cv nCueDims kk cues)
    (fun kk => φ u * summedCue (cv.map φ) nCueDims kk cues) (fun kk => by rw [h.mul, summedCue_hom h]) _ w

theorem whR2RRowEvent_hom (eta : R) (cv ov : Array R) (nCueDims nOutDims : Nat) (w : Array R) (d : Nat)
    (cues outs : List Nat) :
    (whR2RRowEvent eta cv ov nCueDims nOutDims w d cues outs).map φ =
      whR2RRowEvent (φ eta) (cv.map φ) (ov.map φ) nCueDims nOutDims (w.map φ) d cues outs := by
  unfold whR2RRowEvent
  simp only []
  rw [realUpdate_hom h, h.mul, h.sub, summedOut_hom h, realAssoc_hom h]

theorem whR2BRowEvent_hom (β₁ β₂ lam : R) (cv : Array R) (nCueDims : Nat) (w : Array R) (ii : Nat)
    (cues outs : List Nat) :
    (whR2BRowEvent β₁ β₂ lam cv nCueDims w ii cues outs).map φ =
      whR2BRowEvent (φ β₁) (φ β₂) (φ lam) (cv.map φ) nCueDims (w.map φ) ii cues outs := by
  unfold whR2BRowEvent
  simp only []
  rw [realUpdate_hom h]
  congr 1
  cases isElementOf ii outs
  · simp only [Bool.false_eq_true, if_false, h.mul, h.sub, h.zero, realAssoc_hom h]
  · simp only [if_true, h.mul, h.sub, realAssoc_hom h]

theorem learnOmpWith_hom (step : Array R → Nat → Event Nat Nat → Array R) (step' : Array S → Nat → Event Nat Nat → Array S)
    (hs : ∀ w o e, (step w o e).map φ = step' (w.map φ) o e)
    (files : List (List (Event Nat Nat))) (rows : List Nat) (chunk : Nat) (w : Array R) :
    (learnOmpWith step files rows chunk w).map φ = learnOmpWith step' files rows chunk (w.map φ) := by
  unfold learnOmpWith
  exact foldl_map_hom h _ _ (fun w es =>
    foldl_map_hom h _ _ (fun w part =>
      foldl_map_hom h _ _ (fun w e =>
        foldl_map_hom h _ _ (fun w o => hs w o e) part w) es w) _ w) files w

theorem execWith_hom (step : Array R → Nat → Event Nat Nat → Array R) (step' : Array S → Nat → Event Nat Nat → Array S)
    (hs : ∀ w o e, (step w o e).map φ = step' (w.map φ) o e) (w : Array R) (s : List MicroStep) :
    (execWith step w s).map φ = execWith step' (w.map φ) s := by
  unfold execWith
  exact foldl_map_hom h _ _ (fun w st => hs w st.row st.ev) s w

/-! ## Ndl.lean: labelled matrices, `ndl.ndl`, the hand-over conversions -/

/-- a labelled matrix with `f` applied to every value -/
def LW.mapVals (f : R → S) (w : LW R) : LW S := ⟨w.outcomes, w.cues, w.vals.map f⟩

theorem LW.get_hom (w : LW R) (o c : String) : φ (w.get o c) = (LW.mapVals φ w).get o c := by
  unfold LW.get LW.mapVals
  simp only []
  split
  · exact (getD_map_hom h _ _).symm
  · exact h.zero

theorem extendVals_hom (old : Array R) (oldRows oldCols newRows newCols : Nat) :
    (extendVals old oldRows oldCols newRows newCols).map φ =
      extendVals (old.map φ) oldRows oldCols newRows newCols := by
  unfold extendVals
  apply Array.ext
  · simp
  · intro k h1 h2
    simp only [Array.getElem_map, Array.getElem_ofFn]
    split
    · exact (getD_map_hom h _ _).symm
    · exact h.zero

theorem replicate_zero_hom (n : Nat) : (Array.replicate n (0 : R)).map φ = Array.replicate n (0 : S) := by
  rw [Array.map_replicate, h.zero]

/-- result of `ndlCore` / `ndlModel` / `ndlCall` with `f` applied to every value -/
def mapNdlResult (f : R → S) : Except Err (LW R × Nat) → Except Err (LW S × Nat)
  | .error e => .error e
  | .ok (w, n) => .ok (LW.mapVals f w, n)

theorem ndlCore_hom (magic version : Nat) (cfg : NdlCfg) (alpha β₁ β₂ lam : R) (cues outs : List String)
    (vals : Array R) (es : List (Event String String)) :
    mapNdlResult φ (ndlCore magic version cfg alpha β₁ β₂ lam cues outs vals es) =
      ndlCore magic version cfg (φ alpha) (φ β₁) (φ β₂) (φ lam) cues outs (vals.map φ) es := by
  unfold ndlCore
  by_cases h1 : cfg.perFile < 2
  · simp only [h1, if_true]; rfl
  simp only [h1, if_false]
  cases makeChunks magic version cfg.policy (es.map (toIds cues outs)) cfg.perFile with
  | error e => rfl
  | ok ft =>
    obtain ⟨files, total⟩ := ft
    simp only []
    cases decodeAll magic version files with
    | error e => rfl
    | ok chunks =>
      simp only []
      cases cfg.method with
      | threading =>
        simp only []
        by_cases h2 : cfg.perJob < 1
        · simp only [h2, if_true]; rfl
        · simp only [h2, if_false, mapNdlResult, LW.mapVals, learnThreadingSeq_hom h]
      | openmp =>
        simp only []
        by_cases h2 : 4294967296 ≤ cfg.perJob
        · simp only [h2, if_true]; rfl
        simp only [h2, if_false]
        by_cases h3 : cfg.perJob < 1 ∧ (!chunks.isEmpty) = true
        · simp only [h3, and_self, if_true]; rfl
        · simp only [h3, if_false, mapNdlResult, LW.mapVals, learnOpenmpSeq32_hom h]

theorem ndlModel_hom (magic version : Nat) (cfg : NdlCfg) (alpha β₁ β₂ lam : R) (W0 : Option (LW R))
    (es : List (Event String String)) :
    mapNdlResult φ (ndlModel magic version cfg alpha β₁ β₂ lam W0 es) =
      ndlModel magic version cfg (φ alpha) (φ β₁) (φ β₂) (φ lam) (W0.map (LW.mapVals φ)) es := by
  unfold ndlModel
  cases W0 with
  | none =>
    simp only [Option.map_none]
    rw [ndlCore_hom h, replicate_zero_hom h]
  | some w =>
    simp only [Option.map_some, LW.mapVals]
    rw [ndlCore_hom h, extendVals_hom h]

/-- **the model of `ndl.ndl` commutes with the projection** (same errors, same
    labels, same count, projected values) -/
theorem ndlCall_hom (magic version : Nat) (cfg : NdlCfg) (alpha β₁ β₂ lam : R) (W0 : Option (LW R))
    (es : List (Event String String)) :
    mapNdlResult φ (ndlCall magic version cfg alpha β₁ β₂ lam W0 es) =
      ndlCall magic version cfg (φ alpha) (φ β₁) (φ β₂) (φ lam) (W0.map (LW.mapVals φ)) es := by
  unfold ndlCall
  rw [← ndlModel_hom h]
  cases ndlModel magic version cfg alpha β₁ β₂ lam W0 es with
  | error e => rfl
  | ok r =>
    obtain ⟨w, n⟩ := r
    simp only [mapNdlResult]
    by_cases he : es.isEmpty = true
    · simp only [he, if_true]
      cases cfg.method with
      | openmp => rfl
      | threading =>
        simp only [LW.mapVals]
        by_cases ho : w.outcomes.isEmpty = true
        · simp only [ho, if_true]
        · simp only [ho]; rfl
    · simp only [he]
      rfl

/-- `dict_ndl(weights=DataArray)`: the hand-over matrix → dict -/
theorem dictFromLW_hom (w : LW R) : mapWD φ (dictFromLW w) = dictFromLW (LW.mapVals φ w) := by
  unfold dictFromLW mapWD mapRow
  simp only [List.map_map]
  apply List.map_congr_left
  intro o _
  simp only [Function.comp, List.map_map, LW.mapVals, Prod.mk.injEq, true_and]
  apply List.map_congr_left
  intro c _
  simp only [Function.comp, Prod.mk.injEq, true_and]
  exact LW.get_hom h w o c

omit h in
theorem mapWD_cueKeys (f : R → S) (W : WDict String String R) :
    (mapWD f W).flatMap (fun r => r.2.map (·.1)) = W.flatMap (fun r => r.2.map (·.1)) := by
  unfold mapWD mapRow
  induction W with
  | nil => rfl
  | cons kr W ih =>
    simp only [List.map_cons, List.flatMap_cons, ih, List.map_map]
    rfl

/-- `ndl.data_array(dict)` / `make_data_array=True`: the hand-over dict → matrix -/
theorem lwFromDict_hom (W : WDict String String R) :
    LW.mapVals φ (lwFromDict W) = lwFromDict (mapWD φ W) := by
  unfold lwFromDict LW.mapVals
  simp only [mapWD_keys, mapWD_cueKeys]
  congr 1
  rw [List.map_toArray]
  congr 1
  simp only [List.map_flatMap, List.map_map]
  have e : ∀ o : String, (φ ∘ fun c => wdAbs W o c) = fun c => wdAbs (mapWD φ W) o c := by
    intro o
    funext c
    exact wdAbs_hom h W o c
  simp only [e]

/-! ## Activation.lean -/

theorem actColumn_hom (w : LW R) (idx : List Nat) :
    (actColumn w idx).map φ = actColumn (LW.mapVals φ w) idx := by
  unfold actColumn LW.mapVals
  simp only [List.map_map]
  apply List.map_congr_left
  intro i _
  simp only [Function.comp]
  rw [foldl_add_hom h (fun j => w.vals.getD (i * w.cues.length + j) 0)
    (fun j => (w.vals.map φ).getD (i * w.cues.length + j) 0) (fun j => (getD_map_hom h _ _).symm), h.zero]

theorem activationMatrix_hom (p : DupPolicy) (ig : Bool) (w : LW R) (evs : List (List String)) :
    (activationMatrix p ig w evs).map (List.map (List.map φ)) = activationMatrix p ig (LW.mapVals φ w) evs := by
  induction evs with
  | nil => rfl
  | cons cues rest ih =>
    simp only [activationMatrix]
    cases actCues p cues with
    | error e => rfl
    | ok cs =>
      simp only []
      have hc : (LW.mapVals φ w).cues = w.cues := rfl
      rw [hc]
      cases cueIndices ig w.cues cs with
      | error e => rfl
      | ok idx =>
        simp only []
        rw [← ih]
        cases activationMatrix p ig w rest with
        | error e => rfl
        | ok r =>
          simp only [Except.map, List.map_cons, actColumn_hom h]

omit h in
theorem mapRow_keys {ι : Type} (f : R → S) (row : List (ι × R)) : (mapRow f row).map (·.1) = row.map (·.1) := by
  unfold mapRow
  rw [List.map_map]
  rfl

theorem dictRowAct_hom (strict : Bool) (row : List (String × R)) (cues : List String) :
    (dictRowAct strict row cues).map φ = dictRowAct strict (mapRow φ row) cues := by
  unfold dictRowAct
  rw [mapRow_keys]
  split
  · rfl
  · simp only [Except.map]
    rw [foldl_add_hom h (fun c => alGet row c) (fun c => alGet (mapRow φ row) c) (fun c => alGet_hom h row c), h.zero]

/-! ## chains of learner calls (the driver's `chainRunD` = `Pyndl.chainRun`, PyndlProofs/DriverBridge.lean) -/

open PyndlDriver in
/-- a chain state with `f` applied to every weight -/
def mapCS (f : R → S) : PyndlDriver.ChainStateD R → PyndlDriver.ChainStateD S
  | .dict W => .dict (mapWD f W)
  | .matrix w => .matrix (LW.mapVals f w)

open PyndlDriver in
theorem chainStepD_hom (magic version : Nat) (alpha β₁ β₂ lam : R) (s : Option (ChainStateD R))
    (l : PartLearnerD) (es : List (Event String String)) :
    (chainStepD magic version alpha β₁ β₂ lam s l es).map (mapCS φ) =
      chainStepD magic version (φ alpha) (φ β₁) (φ β₂) (φ lam) (s.map (mapCS φ)) l es := by
  cases l with
  | dict p mk =>
    have harg : toDictArgD (s.map (mapCS φ)) = mapWD φ (toDictArgD s) := by
      rcases s with _ | (W | w)
      · rfl
      · rfl
      · exact (dictFromLW_hom h w).symm
    simp only [chainStepD, harg]
    rw [← dictNdl_hom h p (fun _ => alpha) β₁ β₂ lam (toDictArgD s) es]
    cases dictNdl p (fun _ => alpha) β₁ β₂ lam (toDictArgD s) es with
    | none => rfl
    | some W =>
      cases mk
      · rfl
      · simp only [Option.map_some, Except.map, if_true, mapCS, lwFromDict_hom h]
  | ndl cfg =>
    have harg : toNdlArgD (s.map (mapCS φ)) = (toNdlArgD s).map (LW.mapVals φ) := by
      rcases s with _ | (W | w)
      · rfl
      · simp only [Option.map_some, mapCS, toNdlArgD, lwFromDict_hom h]
      · rfl
    simp only [chainStepD, harg]
    rw [← ndlCall_hom h]
    cases ndlCall magic version cfg alpha β₁ β₂ lam (toNdlArgD s) es with
    | error e => rfl
    | ok r => rfl

open PyndlDriver in
/-- **what the driver op `chain` prints is `chainRun` over the projected scalars** -/
theorem chainRunD_hom (magic version : Nat) (alpha β₁ β₂ lam : R) (s : Option (ChainStateD R)) (parts : List PartD) :
    (chainRunD magic version alpha β₁ β₂ lam s parts).map (Option.map (mapCS φ)) =
      chainRunD magic version (φ alpha) (φ β₁) (φ β₂) (φ lam) (s.map (mapCS φ)) parts := by
  induction parts generalizing s with
  | nil => rfl
  | cons pt ps ih =>
    simp only [chainRunD]
    rw [← chainStepD_hom h]
    cases chainStepD magic version alpha β₁ β₂ lam s pt.1 pt.2 with
    | error e => rfl
    | ok s' => exact ih (some s')

end Hom

/-! ## the instance the driver uses: `TR.v : TR → Rat`

`Rat`'s `+ - * 0` here are the core instances the driver's `TR` is built from;
Mathlib's `CommRing ℚ` has the same operations, so the ring theorems apply to
the right-hand sides. -/

section TRv
variable {ι κ : Type} [DecidableEq ι] [DecidableEq κ]

theorem rwLearn_v (α : ι → TR) (β₁ β₂ lam : TR) (W : κ → ι → TR) (es : List (Event ι κ)) (o : κ) (c : ι) :
    (rwLearn α β₁ β₂ lam W es o c).v =
      rwLearn (fun c => (α c).v) β₁.v β₂.v lam.v (fun o c => (W o c).v) es o c :=
  rwLearn_hom TR.v_hom α β₁ β₂ lam W es o c

theorem rwStep_v (α : ι → TR) (β₁ β₂ lam : TR) (W : κ → ι → TR) (e : Event ι κ) (o : κ) (c : ι) :
    (rwStep α β₁ β₂ lam W e o c).v = rwStep (fun c => (α c).v) β₁.v β₂.v lam.v (fun o c => (W o c).v) e o c :=
  rwStep_hom TR.v_hom α β₁ β₂ lam W e o c

theorem rwRow_v (α : ι → TR) (β₁ β₂ lam : TR) (w : ι → TR) (cs : List ι) (p : Bool) (x : ι) :
    (rwRow α β₁ β₂ lam w cs p x).v = rwRow (fun c => (α c).v) β₁.v β₂.v lam.v (fun c => (w c).v) cs p x :=
  rwRow_hom TR.v_hom α β₁ β₂ lam w cs p x

theorem dictNdl_v (p : DupPolicy) (α : ι → TR) (β₁ β₂ lam : TR) (W : WDict ι κ TR) (es : List (Event ι κ)) :
    (dictNdl p α β₁ β₂ lam W es).map (mapWD TR.v) =
      dictNdl p (fun c => (α c).v) β₁.v β₂.v lam.v (mapWD TR.v W) es :=
  dictNdl_hom TR.v_hom p α β₁ β₂ lam W es

theorem kernelRowEvent_v (alpha β₁ β₂ lam : TR) (n : Nat) (w : Array TR) (o : Nat) (cues outs : List Nat) :
    (kernelRowEvent alpha β₁ β₂ lam n w o cues outs).map TR.v =
      kernelRowEvent alpha.v β₁.v β₂.v lam.v n (w.map TR.v) o cues outs :=
  kernelRowEvent_hom TR.v_hom alpha β₁ β₂ lam n w o cues outs

theorem kernelFile_v (alpha β₁ β₂ lam : TR) (n : Nat) (rows : List Nat) (w : Array TR) (es : List (Event Nat Nat)) :
    (kernelFile alpha β₁ β₂ lam n rows w es).map TR.v = kernelFile alpha.v β₁.v β₂.v lam.v n rows (w.map TR.v) es :=
  kernelFile_hom TR.v_hom alpha β₁ β₂ lam n rows w es

theorem ndlCall_v (magic version : Nat) (cfg : NdlCfg) (alpha β₁ β₂ lam : TR) (W0 : Option (LW TR))
    (es : List (Event String String)) :
    mapNdlResult TR.v (ndlCall magic version cfg alpha β₁ β₂ lam W0 es) =
      ndlCall magic version cfg alpha.v β₁.v β₂.v lam.v (W0.map (LW.mapVals TR.v)) es :=
  ndlCall_hom TR.v_hom magic version cfg alpha β₁ β₂ lam W0 es

theorem whB2RRowEvent_v (eta : TR) (ov : Array TR) (nOutDims nCues : Nat) (w : Array TR) (d : Nat) (cues outs : List Nat) :
    (whB2RRowEvent eta ov nOutDims nCues w d cues outs).map TR.v =
      whB2RRowEvent eta.v (ov.map TR.v) nOutDims nCues (w.map TR.v) d cues outs :=
  whB2RRowEvent_hom TR.v_hom eta ov nOutDims nCues w d cues outs

theorem whR2RRowEvent_v (eta : TR) (cv ov : Array TR) (nCueDims nOutDims : Nat) (w : Array TR) (d : Nat)
    (cues outs : List Nat) :
    (whR2RRowEvent eta cv ov nCueDims nOutDims w d cues outs).map TR.v =
      whR2RRowEvent eta.v (cv.map TR.v) (ov.map TR.v) nCueDims nOutDims (w.map TR.v) d cues outs :=
  whR2RRowEvent_hom TR.v_hom eta cv ov nCueDims nOutDims w d cues outs

theorem whR2BRowEvent_v (β₁ β₂ lam : TR) (cv : Array TR) (nCueDims : Nat) (w : Array TR) (ii : Nat) (cues outs : List Nat) :
    (whR2BRowEvent β₁ β₂ lam cv nCueDims w ii cues outs).map TR.v =
      whR2BRowEvent β₁.v β₂.v lam.v (cv.map TR.v) nCueDims (w.map TR.v) ii cues outs :=
  whR2BRowEvent_hom TR.v_hom β₁ β₂ lam cv nCueDims w ii cues outs

theorem activationMatrix_v (p : DupPolicy) (ig : Bool) (w : LW TR) (evs : List (List String)) :
    (activationMatrix p ig w evs).map (List.map (List.map TR.v)) = activationMatrix p ig (LW.mapVals TR.v w) evs :=
  activationMatrix_hom TR.v_hom p ig w evs

open PyndlDriver in
theorem chainRunD_v (magic version : Nat) (alpha β₁ β₂ lam : TR) (s : Option (ChainStateD TR)) (parts : List PartD) :
    (chainRunD magic version alpha β₁ β₂ lam s parts).map (Option.map (mapCS TR.v)) =
      chainRunD magic version alpha.v β₁.v β₂.v lam.v (s.map (mapCS TR.v)) parts :=
  chainRunD_hom TR.v_hom magic version alpha β₁ β₂ lam s parts

/-- the history really is not a ring structure: `a - a` has the value of `0`
    only up to `.v`; its `bits` are at least those of `a` -/
example (a : TR) (ha : 0 < a.bits) : (a - a).bits ≠ (0 : TR).bits := by
  have e : (a - a).bits = max (max a.bits a.bits) (TR.need (a.v - a.v)) := rfl
  have z : (0 : TR).bits = 0 := rfl
  rw [e, z]
  have := Nat.le_max_left (max a.bits a.bits) (TR.need (a.v - a.v))
  have := Nat.le_max_left a.bits a.bits
  omega

end TRv

end Pyndl
