/-
  PyndlProofs.Filter — helper lemmas for C10 (model: PyndlModel/Filter.lean).
-/
import PyndlModel.Filter
import Mathlib.Data.List.Basic

set_option linter.unusedSectionVars false
set_option linter.unusedSimpArgs false
set_option linter.unusedVariables false

namespace Pyndl
namespace Filter
open List

variable {χ : Type} [DecidableEq χ]

/-! ### `splitOn` / `joinWith` -/

theorem splitOn_ne_nil (sep : χ) (s : Str χ) : splitOn sep s ≠ [] := by
  induction s with
  | nil => simp [splitOn]
  | cons c cs ih =>
    unfold splitOn
    split
    · simp
    · split <;> simp

theorem splitOn_cons_sep (sep : χ) (cs : Str χ) :
    splitOn sep (sep :: cs) = [] :: splitOn sep cs := by
  rw [splitOn]; simp

theorem splitOn_cons_ne (sep c : χ) (cs : Str χ) (h : c ≠ sep) :
    ∃ t ts, splitOn sep cs = t :: ts ∧ splitOn sep (c :: cs) = (c :: t) :: ts := by
  cases hs : splitOn sep cs with
  | nil => exact absurd hs (splitOn_ne_nil sep cs)
  | cons t ts =>
    refine ⟨t, ts, rfl, ?_⟩
    rw [splitOn, if_neg h, hs]

/-- no piece contains the separator -/
theorem not_mem_of_mem_splitOn (sep : χ) (s : Str χ) :
    ∀ t ∈ splitOn sep s, sep ∉ t := by
  induction s with
  | nil => intro t ht; simp [splitOn] at ht; subst ht; simp
  | cons c cs ih =>
    intro t ht
    by_cases h : c = sep
    · subst h
      rw [splitOn_cons_sep] at ht
      rcases List.mem_cons.1 ht with rfl | ht
      · simp
      · exact ih t ht
    · obtain ⟨t0, ts, h1, h2⟩ := splitOn_cons_ne sep c cs h
      rw [h2] at ht
      rw [h1] at ih
      rcases List.mem_cons.1 ht with rfl | ht
      · intro hm
        rcases List.mem_cons.1 hm with e | hm
        · exact h e.symm
        · exact ih t0 (by simp) hm
      · exact ih t (by simp [ht])

/-- the characters of a piece are characters of the text -/
theorem mem_of_mem_splitOn (sep : χ) (s : Str χ) :
    ∀ t ∈ splitOn sep s, ∀ x ∈ t, x ∈ s := by
  induction s with
  | nil => intro t ht x hx; simp [splitOn] at ht; subst ht; simp at hx
  | cons c cs ih =>
    intro t ht x hx
    by_cases h : c = sep
    · subst h
      rw [splitOn_cons_sep] at ht
      rcases List.mem_cons.1 ht with rfl | ht
      · simp at hx
      · exact List.mem_cons_of_mem _ (ih t ht x hx)
    · obtain ⟨t0, ts, h1, h2⟩ := splitOn_cons_ne sep c cs h
      rw [h2] at ht
      rw [h1] at ih
      rcases List.mem_cons.1 ht with rfl | ht
      · rcases List.mem_cons.1 hx with rfl | hx
        · simp
        · exact List.mem_cons_of_mem _ (ih t0 (by simp) x hx)
      · exact List.mem_cons_of_mem _ (ih t (by simp [ht]) x hx)

theorem splitOn_append_sep (sep : χ) (t s : Str χ) (h : sep ∉ t) :
    splitOn sep (t ++ sep :: s) = t :: splitOn sep s := by
  induction t with
  | nil => simp [splitOn_cons_sep]
  | cons c cs ih =>
    have hc : c ≠ sep := fun e => h (by simp [e])
    have hcs : sep ∉ cs := fun e => h (List.mem_cons_of_mem _ e)
    obtain ⟨t0, ts, h1, h2⟩ := splitOn_cons_ne sep c (cs ++ sep :: s) hc
    rw [List.cons_append, h2]
    rw [ih hcs] at h1
    injection h1 with e1 e2
    rw [← e1, ← e2]

theorem splitOn_of_not_mem (sep : χ) (t : Str χ) (h : sep ∉ t) : splitOn sep t = [t] := by
  induction t with
  | nil => simp [splitOn]
  | cons c cs ih =>
    have hc : c ≠ sep := fun e => h (by simp [e])
    have hcs : sep ∉ cs := fun e => h (List.mem_cons_of_mem _ e)
    obtain ⟨t0, ts, h1, h2⟩ := splitOn_cons_ne sep c cs hc
    rw [h2]
    rw [ih hcs] at h1
    injection h1 with e1 e2
    rw [← e1, ← e2]

theorem joinWith_cons_cons (sep : χ) (t t' : Str χ) (ts : List (Str χ)) :
    joinWith sep (t :: t' :: ts) = t ++ sep :: joinWith sep (t' :: ts) := rfl

/-- `sep.join(xs).split(sep) == xs` for a non-empty list of separator-free tokens -/
theorem splitOn_joinWith (sep : χ) (ts : List (Str χ)) (hne : ts ≠ [])
    (h : ∀ t ∈ ts, sep ∉ t) : splitOn sep (joinWith sep ts) = ts := by
  induction ts with
  | nil => exact absurd rfl hne
  | cons t ts ih =>
    cases ts with
    | nil => simpa [joinWith] using splitOn_of_not_mem sep t (h t (by simp))
    | cons t' ts =>
      rw [joinWith_cons_cons, splitOn_append_sep sep t _ (h t (by simp))]
      rw [ih (by simp) (fun u hu => h u (List.mem_cons_of_mem _ hu))]

/-- `sep.join(s.split(sep)) == s` -/
theorem joinWith_splitOn (sep : χ) (s : Str χ) : joinWith sep (splitOn sep s) = s := by
  induction s with
  | nil => simp [splitOn, joinWith]
  | cons c cs ih =>
    by_cases h : c = sep
    · rw [h, splitOn_cons_sep]
      cases hs : splitOn sep cs with
      | nil => exact absurd hs (splitOn_ne_nil _ cs)
      | cons t ts => rw [joinWith_cons_cons, ← hs, ih]; simp
    · obtain ⟨t0, ts, h1, h2⟩ := splitOn_cons_ne sep c cs h
      rw [h2]
      rw [h1] at ih
      cases ts with
      | nil => simp only [joinWith] at ih ⊢; rw [ih]
      | cons t' ts =>
        rw [joinWith_cons_cons] at ih ⊢
        rw [List.cons_append, ih]

/-- the characters of a joined text are the separator or characters of a token -/
theorem mem_joinWith (sep : χ) (ts : List (Str χ)) (x : χ) (hx : x ∈ joinWith sep ts) :
    x = sep ∨ ∃ t ∈ ts, x ∈ t := by
  induction ts with
  | nil => simp [joinWith] at hx
  | cons t ts ih =>
    cases ts with
    | nil => simp only [joinWith] at hx; exact Or.inr ⟨t, by simp, hx⟩
    | cons t' ts =>
      rw [joinWith_cons_cons] at hx
      rcases List.mem_append.1 hx with hx | hx
      · exact Or.inr ⟨t, by simp, hx⟩
      · rcases List.mem_cons.1 hx with rfl | hx
        · exact Or.inl rfl
        · rcases ih hx with e | ⟨u, hu, hxu⟩
          · exact Or.inl e
          · exact Or.inr ⟨u, List.mem_cons_of_mem _ hu, hxu⟩

/-! ### rules -/

/-- the rules that only select tokens (no renaming) -/
def Rule.IsSelect : Rule χ → Prop
  | .all => True
  | .keep _ => True
  | .remove _ => True
  | .map _ => False

theorem Rule.apply_sub (r : Rule χ) (hr : r.IsSelect) (ts : List (Str χ)) :
    ∀ t ∈ r.apply ts, t ∈ ts := by
  intro t ht
  cases r with
  | all => exact ht
  | keep S => exact (List.mem_filter.1 ht).1
  | remove S => exact (List.mem_filter.1 ht).1
  | map m => exact absurd hr (by simp [Rule.IsSelect])

theorem Rule.apply_idem (r : Rule χ) (hr : r.IsSelect) (ts : List (Str χ)) :
    r.apply (r.apply ts) = r.apply ts := by
  cases r with
  | all => rfl
  | keep S => simp [Rule.apply, List.filter_filter]
  | remove S => simp [Rule.apply, List.filter_filter]
  | map m => exact absurd hr (by simp [Rule.IsSelect])

/-- a select rule applied to the single empty token gives `[]` or `[""]` -/
theorem Rule.apply_singleton_nil (r : Rule χ) (hr : r.IsSelect) (sep : χ) :
    joinWith sep (r.apply [[]]) = [] := by
  cases r with
  | all => rfl
  | keep S => by_cases h : ([] : Str χ) ∈ S <;> simp [Rule.apply, List.filter, h, joinWith]
  | remove S => by_cases h : ([] : Str χ) ∈ S <;> simp [Rule.apply, List.filter, h, joinWith]
  | map m => exact absurd hr (by simp [Rule.IsSelect])

/- `keep_apply_eq_remove` (hypothesis `∀ t, t ∈ S ↔ t ∉ C` over ALL strings) was
   removed: that hypothesis is unsatisfiable for finite lists `S`, `C`
   (`C10.no_global_complement`).  Its replacement is relative to a token list: -/
/-- keeping `S` = removing `C` on a token list on which `C` is the complement of `S` -/
theorem keep_apply_eq_remove_on (S C : List (Str χ)) (ts : List (Str χ))
    (h : ∀ t ∈ ts, (t ∈ S ↔ t ∉ C)) :
    (Rule.keep S).apply ts = (Rule.remove C).apply ts := by
  simp only [Rule.apply]
  apply List.filter_congr
  intro t ht
  by_cases hs : t ∈ S
  · have := (h t ht).1 hs; simp [hs, this]
  · have : ¬ t ∉ C := fun hc => hs ((h t ht).2 hc)
    simp [hs, this]

theorem map_apply_eq_keep (m : List (Str χ × Str χ)) (S : List (Str χ))
    (hm : ∀ t, lookupD m t = if t ∈ S then t else []) (hS : ([] : Str χ) ∉ S)
    (ts : List (Str χ)) : (Rule.map m).apply ts = (Rule.keep S).apply ts := by
  simp only [Rule.apply]
  induction ts with
  | nil => rfl
  | cons t ts ih =>
    rw [List.map_cons, List.filter_cons, List.filter_cons, ih, hm t]
    by_cases hs : t ∈ S
    · have hne : t ≠ [] := fun e => hS (e ▸ hs)
      simp [hs, hne]
    · simp [hs]

/-- the identity map on `S`: `{t: t for t in S}` -/
def idMap (S : List (Str χ)) : List (Str χ × Str χ) := S.map (fun t => (t, t))

theorem lookupD_idMap (S : List (Str χ)) (t : Str χ) :
    lookupD (idMap S) t = if t ∈ S then t else [] := by
  induction S with
  | nil => simp [idMap, lookupD]
  | cons s S ih =>
    simp only [idMap, List.map_cons, lookupD] at ih ⊢
    by_cases h : t = s
    · subst h; simp
    · rw [if_neg h]
      have : (t ∈ s :: S) ↔ t ∈ S := by simp [h]
      simp only [this]
      exact ih

/-! ### the constructor -/

theorem selectRule_all : selectRule (⟨none, none, none⟩ : SideArgs χ) = .ok .all := rfl
theorem selectRule_keep (S : List (Str χ)) : selectRule ⟨some S, none, none⟩ = .ok (.keep S) := rfl
theorem selectRule_remove (S : List (Str χ)) : selectRule ⟨none, some S, none⟩ = .ok (.remove S) := rfl
theorem selectRule_map (m : List (Str χ × Str χ)) : selectRule ⟨none, none, some m⟩ = .ok (.map m) := rfl

/-- number of the three arguments of one side that were given -/
def SideArgs.given (a : SideArgs χ) : Nat :=
  (if a.keep.isSome then 1 else 0) + (if a.remove.isSome then 1 else 0) + (if a.map.isSome then 1 else 0)

theorem selectRule_error_iff (a : SideArgs χ) : selectRule a = .error .value ↔ 2 ≤ a.given := by
  obtain ⟨k, r, m⟩ := a
  cases k <;> cases r <;> cases m <;> simp [selectRule, SideArgs.given]

/-- the argument combinations of one side without a map: `'all'`, keep, remove -/
def NoMap (a : SideArgs χ) : Prop := a.map = none

/-- the only exception the constructor raises is `ValueError` -/
theorem selectRule_err_value (a : SideArgs χ) (e : Err) (h : selectRule a = .error e) :
    e = .value := by
  obtain ⟨k, r, m⟩ := a
  cases k <;> cases r <;> cases m <;> simp [selectRule] at h <;> exact h.symm

/-! ### chunking -/

theorem chunksAux_flatten {α : Type} (n : Nat) (hn : 1 ≤ n) :
    ∀ (fuel : Nat) (xs : List α), xs.length ≤ fuel → (chunksAux n fuel xs).flatten = xs := by
  intro fuel
  induction fuel with
  | zero =>
    intro xs h
    have : xs = [] := List.length_eq_zero_iff.1 (Nat.le_zero.1 h)
    subst this; rfl
  | succ f ih =>
    intro xs h
    cases xs with
    | nil => rfl
    | cons x xs =>
      simp only [chunksAux, List.flatten_cons]
      rw [ih]
      · exact List.take_append_drop n (x :: xs)
      · simp only [List.length_drop, List.length_cons] at h ⊢
        omega

theorem chunksOf_flatten {α : Type} (n : Nat) (hn : 1 ≤ n) (xs : List α) :
    (chunksOf n xs).flatten = xs :=
  chunksAux_flatten n hn xs.length xs (Nat.le_refl _)

theorem imap_eq_map {α β : Type} (f : α → β) (xs : List α) (n : Nat) (hn : 1 ≤ n) :
    imap f xs n = xs.map f := by
  unfold imap
  rw [List.flatMap_def, ← List.map_flatten, chunksOf_flatten n hn]

/-! ### the file loop -/

theorem filterLine_of_wf (tab us : χ) (rc ro : Rule χ) (l : Str χ) (h : WellFormed tab l) :
    filterLine tab us rc ro l = .ok (applyRules tab us rc ro l) := by
  unfold WellFormed at h
  unfold filterLine applyRules
  match hs : splitOn tab l with
  | [] => rw [hs] at h; simp at h
  | [_] => rw [hs] at h; simp at h
  | [c, o] => rfl
  | _ :: _ :: _ :: _ => rw [hs] at h; simp at h

theorem filterLine_of_not_wf (tab us : χ) (rc ro : Rule χ) (l : Str χ) (h : ¬ WellFormed tab l) :
    filterLine tab us rc ro l = .error .value := by
  unfold WellFormed at h
  unfold filterLine
  match hs : splitOn tab l with
  | [] => rfl
  | [_] => rfl
  | [c, o] => rw [hs] at h; simp at h
  | _ :: _ :: _ :: _ => rfl

theorem filterLine_error (tab us : χ) (rc ro : Rule χ) (l : Str χ) (e : Err)
    (h : filterLine tab us rc ro l = .error e) : e = .value := by
  by_cases hw : WellFormed tab l
  · rw [filterLine_of_wf tab us rc ro l hw] at h; cases h
  · rw [filterLine_of_not_wf tab us rc ro l hw] at h; cases h; rfl

theorem collect_filterLine_ok (tab us : χ) (rc ro : Rule χ) (ls : List (Str χ))
    (h : ∀ l ∈ ls, WellFormed tab l) :
    collect (ls.map (filterLine tab us rc ro)) = .ok (ls.filterMap (applyRules tab us rc ro)) := by
  induction ls with
  | nil => rfl
  | cons l ls ih =>
    rw [List.map_cons, filterLine_of_wf tab us rc ro l (h l (by simp))]
    simp only [collect]
    rw [ih (fun u hu => h u (List.mem_cons_of_mem _ hu))]
    cases hl : applyRules tab us rc ro l <;> simp [List.filterMap_cons, hl]

theorem collect_filterLine_err (tab us : χ) (rc ro : Rule χ) (ls : List (Str χ))
    (h : ∃ l ∈ ls, ¬ WellFormed tab l) :
    collect (ls.map (filterLine tab us rc ro)) = .error .value := by
  induction ls with
  | nil => obtain ⟨l, hl, _⟩ := h; simp at hl
  | cons l ls ih =>
    rw [List.map_cons]
    by_cases hw : WellFormed tab l
    · rw [filterLine_of_wf tab us rc ro l hw]
      simp only [collect]
      have : ∃ l ∈ ls, ¬ WellFormed tab l := by
        obtain ⟨u, hu, hnu⟩ := h
        rcases List.mem_cons.1 hu with rfl | hu
        · exact absurd hw hnu
        · exact ⟨u, hu, hnu⟩
      rw [ih this]
    · rw [filterLine_of_not_wf tab us rc ro l hw]; rfl

/-- `filterFile` on a file whose event lines are all well formed -/
theorem filterFile_ok (tab us : χ) (rc ro : Rule χ) (n : Nat) (hn : 1 ≤ n)
    (header : Str χ) (rest : List (Str χ)) (h : ∀ l ∈ rest, WellFormed tab l) :
    filterFile tab us rc ro n (header :: rest)
      = .ok (header :: rest.filterMap (applyRules tab us rc ro)) := by
  unfold filterFile
  rw [if_neg (by omega)]
  simp only []
  rw [imap_eq_map _ _ n hn, collect_filterLine_ok tab us rc ro rest h]

theorem filterFile_err (tab us : χ) (rc ro : Rule χ) (n : Nat)
    (header : Str χ) (rest : List (Str χ)) (h : ∃ l ∈ rest, ¬ WellFormed tab l) :
    filterFile tab us rc ro n (header :: rest) = .error .value := by
  unfold filterFile
  by_cases hn : n = 0
  · rw [if_pos hn]
  · rw [if_neg hn]
    simp only []
    rw [imap_eq_map _ _ n (by omega), collect_filterLine_err tab us rc ro rest h]

/-- a successful run: the event lines were all well formed -/
theorem filterFile_ok_inv (tab us : χ) (rc ro : Rule χ) (n : Nat) (lines out : List (Str χ))
    (h : filterFile tab us rc ro n lines = .ok out) :
    1 ≤ n ∧ (lines = [] ∧ out = [] ∨
      ∃ header rest, lines = header :: rest ∧ (∀ l ∈ rest, WellFormed tab l) ∧
        out = header :: rest.filterMap (applyRules tab us rc ro)) := by
  by_cases hn : n = 0
  · unfold filterFile at h; rw [if_pos hn] at h; cases h
  · refine ⟨by omega, ?_⟩
    cases lines with
    | nil =>
      unfold filterFile at h; rw [if_neg hn] at h
      injection h with h
      exact Or.inl ⟨rfl, h.symm⟩
    | cons header rest =>
      right
      refine ⟨header, rest, rfl, ?_⟩
      by_cases hw : ∀ l ∈ rest, WellFormed tab l
      · refine ⟨hw, ?_⟩
        rw [filterFile_ok tab us rc ro n (by omega) header rest hw] at h
        injection h with h
        exact h.symm
      · have : ∃ l ∈ rest, ¬ WellFormed tab l := by
          by_contra hc
          exact hw (fun l hl => by_contra (fun hnw => hc ⟨l, hl, hnw⟩))
        rw [filterFile_err tab us rc ro n header rest this] at h
        cases h

/-! ### idempotence of select rules on one line -/

theorem wellFormed_iff (tab : χ) (l : Str χ) :
    WellFormed tab l ↔ ∃ c o, splitOn tab l = [c, o] := by
  unfold WellFormed
  constructor
  · intro h
    match hs : splitOn tab l with
    | [] => rw [hs] at h; simp at h
    | [_] => rw [hs] at h; simp at h
    | [c, o] => exact ⟨c, o, rfl⟩
    | _ :: _ :: _ :: _ => rw [hs] at h; simp at h
  · rintro ⟨c, o, h⟩; rw [h]; rfl

theorem applyRules_some_wf (tab us : χ) (rc ro : Rule χ) (l l' : Str χ)
    (h : applyRules tab us rc ro l = some l') : ∃ c o, splitOn tab l = [c, o] := by
  unfold applyRules at h
  match hs : splitOn tab l with
  | [] => rw [hs] at h; cases h
  | [_] => rw [hs] at h; cases h
  | [c, o] => exact ⟨c, o, rfl⟩
  | _ :: _ :: _ :: _ => rw [hs] at h; cases h

theorem applyRules_of_split (tab us : χ) (rc ro : Rule χ) (l c o : Str χ)
    (hs : splitOn tab l = [c, o]) :
    applyRules tab us rc ro l = processColumns tab us rc ro c o := by
  unfold applyRules; rw [hs]

/-- tokens selected from a tab-free column are tab-free and `_`-free, so the
    joined column is tab-free -/
theorem join_apply_tabfree (tab us : χ) (hne : tab ≠ us) (r : Rule χ) (hr : r.IsSelect)
    (c : Str χ) (hc : tab ∉ c) : tab ∉ joinWith us (r.apply (splitOn us c)) := by
  intro hm
  rcases mem_joinWith us _ tab hm with e | ⟨t, ht, hxt⟩
  · exact hne e
  · exact hc (mem_of_mem_splitOn us c t (r.apply_sub hr _ t ht) tab hxt)

/-- second pass over one column: same text -/
theorem join_apply_idem (us : χ) (r : Rule χ) (hr : r.IsSelect) (c : Str χ) :
    joinWith us (r.apply (splitOn us (joinWith us (r.apply (splitOn us c)))))
      = joinWith us (r.apply (splitOn us c)) := by
  cases hts : r.apply (splitOn us c) with
  | nil =>
    show joinWith us (r.apply (splitOn us [])) = []
    exact r.apply_singleton_nil hr us
  | cons t ts =>
    rw [← hts]
    have hfree : ∀ u ∈ r.apply (splitOn us c), us ∉ u :=
      fun u hu => not_mem_of_mem_splitOn us c u (r.apply_sub hr _ u hu)
    rw [splitOn_joinWith us _ (by rw [hts]; simp) hfree, r.apply_idem hr]

/-- a kept line is well formed and is a fixed point of the same filter -/
theorem applyRules_fixed (tab us : χ) (hne : tab ≠ us) (rc ro : Rule χ)
    (hrc : rc.IsSelect) (hro : ro.IsSelect) (l l' : Str χ)
    (h : applyRules tab us rc ro l = some l') :
    WellFormed tab l' ∧ applyRules tab us rc ro l' = some l' := by
  obtain ⟨c, o, hs⟩ := applyRules_some_wf tab us rc ro l l' h
  rw [applyRules_of_split tab us rc ro l c o hs] at h
  have hc : tab ∉ c := not_mem_of_mem_splitOn tab l c (by rw [hs]; simp)
  have ho : tab ∉ o := not_mem_of_mem_splitOn tab l o (by rw [hs]; simp)
  unfold processColumns at h
  simp only [] at h
  by_cases hemp : (rc.apply (splitOn us c)).isEmpty = true
  · rw [if_pos hemp] at h; cases h
  · rw [if_neg hemp] at h
    injection h with h
    have hcues_ne : rc.apply (splitOn us c) ≠ [] := by
      intro e; rw [e] at hemp; simp at hemp
    have hsplit' : splitOn tab l'
        = [joinWith us (rc.apply (splitOn us c)), joinWith us (ro.apply (splitOn us o))] := by
      rw [← h, splitOn_append_sep tab _ _ (join_apply_tabfree tab us hne rc hrc c hc),
        splitOn_of_not_mem tab _ (join_apply_tabfree tab us hne ro hro o ho)]
    refine ⟨(wellFormed_iff tab l').2 ⟨_, _, hsplit'⟩, ?_⟩
    rw [applyRules_of_split tab us rc ro l' _ _ hsplit']
    unfold processColumns
    simp only []
    have hfree : ∀ u ∈ rc.apply (splitOn us c), us ∉ u :=
      fun u hu => not_mem_of_mem_splitOn us c u (rc.apply_sub hrc _ u hu)
    have hcues : rc.apply (splitOn us (joinWith us (rc.apply (splitOn us c))))
        = rc.apply (splitOn us c) := by
      rw [splitOn_joinWith us _ hcues_ne hfree, rc.apply_idem hrc]
    rw [hcues, if_neg hemp, join_apply_idem us ro hro o, h]

theorem filterMap_fixed {α : Type} (f : α → Option α) (xs : List α)
    (h : ∀ x y, f x = some y → f y = some y) :
    (xs.filterMap f).filterMap f = xs.filterMap f := by
  induction xs with
  | nil => rfl
  | cons x xs ih =>
    cases hx : f x with
    | none => simp [List.filterMap_cons, hx, ih]
    | some y => simp [List.filterMap_cons, hx, h x y hx, ih]

/-- filtering the output of a successful run again, with any chunk size,
    succeeds and changes nothing -/
theorem filterFile_idem (tab us : χ) (hne : tab ≠ us) (rc ro : Rule χ)
    (hrc : rc.IsSelect) (hro : ro.IsSelect) (n m : Nat) (hm : 1 ≤ m)
    (lines out : List (Str χ)) (h : filterFile tab us rc ro n lines = .ok out) :
    filterFile tab us rc ro m out = .ok out := by
  obtain ⟨_, h⟩ := filterFile_ok_inv tab us rc ro n lines out h
  rcases h with ⟨_, rfl⟩ | ⟨header, rest, _, hw, rfl⟩
  · unfold filterFile; rw [if_neg (by omega)]
  · have hfix := applyRules_fixed tab us hne rc ro hrc hro
    rw [filterFile_ok tab us rc ro m hm header _ ?_]
    · rw [filterMap_fixed _ rest (fun x y hxy => (hfix x y hxy).2)]
    · intro l hl
      obtain ⟨x, _, hx⟩ := List.mem_filterMap.1 hl
      exact (hfix x l hx).1


/-! ### the tokens that occur in a file; rules that agree on them -/

/-- the tokens of the cue column of the well-formed event lines of a file (the
    first line is the header), in order of occurrence, with repetitions -/
def cueTokens (tab us : χ) (lines : List (Str χ)) : List (Str χ) :=
  lines.tail.flatMap fun l => match splitOn tab l with
    | [c, _] => splitOn us c
    | _ => []

/-- the tokens of the outcome column of the well-formed event lines -/
def outcomeTokens (tab us : χ) (lines : List (Str χ)) : List (Str χ) :=
  lines.tail.flatMap fun l => match splitOn tab l with
    | [_, o] => splitOn us o
    | _ => []

theorem mem_cueTokens (tab us : χ) (lines : List (Str χ)) (l c o : Str χ)
    (hl : l ∈ lines.tail) (hs : splitOn tab l = [c, o]) :
    ∀ t ∈ splitOn us c, t ∈ cueTokens tab us lines := by
  intro t ht
  unfold cueTokens
  rw [List.mem_flatMap]
  exact ⟨l, hl, by rw [hs]; exact ht⟩

theorem mem_outcomeTokens (tab us : χ) (lines : List (Str χ)) (l c o : Str χ)
    (hl : l ∈ lines.tail) (hs : splitOn tab l = [c, o]) :
    ∀ t ∈ splitOn us o, t ∈ outcomeTokens tab us lines := by
  intro t ht
  unfold outcomeTokens
  rw [List.mem_flatMap]
  exact ⟨l, hl, by rw [hs]; exact ht⟩

/-- `imap` only looks at the elements of the list -/
theorem imap_congr {α β : Type} (f g : α → β) (xs : List α) (n : Nat)
    (h : ∀ x ∈ xs, f x = g x) : imap f xs n = imap g xs n := by
  by_cases hn : n = 0
  · subst hn
    unfold imap chunksOf
    cases xs with
    | nil => rfl
    | cons x xs =>
      -- chunk size 0: every slice is empty; both sides are the same list of empty lists
      have : ∀ (fuel : Nat) (ys : List α), (chunksAux 0 fuel ys).flatMap (List.map f)
          = (chunksAux 0 fuel ys).flatMap (List.map g) := by
        intro fuel
        induction fuel with
        | zero => intro ys; rfl
        | succ k ih =>
          intro ys
          cases ys with
          | nil => rfl
          | cons y ys => simp only [chunksAux, List.take_zero, List.drop_zero, List.flatMap_cons,
              List.map_nil, List.nil_append]; exact ih (y :: ys)
      exact this _ _
  · rw [imap_eq_map f xs n (by omega), imap_eq_map g xs n (by omega)]
    exact List.map_congr_left h

/-- two pairs of rules that act alike on every token list that occurs in the
    file give the same output file (or the same error) -/
theorem filterFile_congr (tab us : χ) (rc ro rc' ro' : Rule χ) (chunk : Nat) (lines : List (Str χ))
    (hc : ∀ l ∈ lines.tail, ∀ c o, splitOn tab l = [c, o] →
      rc.apply (splitOn us c) = rc'.apply (splitOn us c))
    (ho : ∀ l ∈ lines.tail, ∀ c o, splitOn tab l = [c, o] →
      ro.apply (splitOn us o) = ro'.apply (splitOn us o)) :
    filterFile tab us rc ro chunk lines = filterFile tab us rc' ro' chunk lines := by
  unfold filterFile
  cases lines with
  | nil => rfl
  | cons header rest =>
    have hline : ∀ l ∈ rest, filterLine tab us rc ro l = filterLine tab us rc' ro' l := by
      intro l hl
      unfold filterLine
      match hs : splitOn tab l with
      | [] => rfl
      | [_] => rfl
      | [c, o] =>
        simp only [processColumns]
        rw [hc l hl c o hs, ho l hl c o hs]
      | _ :: _ :: _ :: _ => rfl
    simp only [imap_congr _ _ rest chunk hline]

end Filter
end Pyndl
