/-
  PyndlProofs.LawsModels — the algebraic laws of the Rescorla–Wagner map (C13)
  as theorems about the IMPLEMENTATION MODELS `dictNdl` (pure-Python learner)
  and `ndlModel` (`ndl.ndl`: counting, id maps, chunk files, kernels, labels),
  obtained from the laws of the specification `rwLearn` (PyndlProofs.Laws)
  through `dictNdl_eq_spec`, `ndlModel_eq_spec`, `ndlModel_continue_eq_spec`.

  Every law relates two or three RUNS of a model; the statements have the form
  "the runs succeed and their results are related", under the hypotheses of the
  end-to-end theorems (the duplicate policy accepts the events, the 32-bit size
  conditions, `CfgOK`: `2 ≤ events_per_temporary_file < 2³²`, `1 ≤ n_outcomes_per_job`,
  OpenMP `n_outcomes_per_job < 2³²` and no wrap-around of the part bounds).

  Two layers for `ndl.ndl`: the `ndlModel_*` lemmas (the model without the
  zero-event rule; kept as lemmas) and — last section — the `ndlCall_*` theorems
  C13 states: on the CALL, with `es ≠ []` (on zero events the call raises
  `IOError`, so e.g. "λ-homogeneous on `[]`" would assert success where the code
  raises), `FileEvents`, `Nodup` on given labels (the model reads a repeated
  label at its first position, Python at its last: given cues `['a','a']` the
  model updates the first `a`, the code the last), and with the LABELS of every
  result in the conclusion — a law read through `LW.get` alone would also be
  satisfied by results with wrong labels.
-/
import PyndlProofs.Laws
import PyndlProofs.Dict
import PyndlProofs.NdlContinue
import PyndlProofs.Chain
import PyndlProofs.PermEvents
import PyndlProofs.FileEvents

set_option linter.unusedSectionVars false
set_option linter.unusedSimpArgs false
set_option linter.unusedVariables false

namespace Pyndl
open List

variable {R : Type} [CommRing R]

/-! ## the specification: row locality (moved here from C13) -/

section Spec
variable {ι κ : Type} [DecidableEq ι] [DecidableEq κ]

theorem rwLearn_row_depends_only (α : ι → R) (β₁ β₂ lam : R) (W W' : κ → ι → R)
    (es es' : List (Event ι κ)) (o : κ) (hW : W o = W' o)
    (hv : es.map (fun e => (e.cues, decide (o ∈ e.outcomes)))
      = es'.map (fun e => (e.cues, decide (o ∈ e.outcomes)))) :
    rwLearn α β₁ β₂ lam W es o = rwLearn α β₁ β₂ lam W' es' o := by
  rw [rwLearn_row, rwLearn_row, hW]
  generalize W' o = r
  induction es generalizing es' r with
  | nil =>
    cases es' with
    | nil => rfl
    | cons _ _ => simp at hv
  | cons e es ih =>
    cases es' with
    | nil => simp at hv
    | cons e' es' =>
      simp only [List.map_cons, List.cons.injEq, Prod.mk.injEq] at hv
      simp only [List.foldl_cons]
      rw [hv.1.1, hv.1.2]
      exact ih es' hv.2 _

/-! ## `dict_ndl` -/

/-- **transport lemma**: whatever the model of `dict_ndl` returns IS the
    specification on the policy-processed events (and the policy accepted them)
    — so every law of `rwLearn` is a law of `dictNdl`'s results -/
theorem dictNdl_transport (p : DupPolicy) (α : ι → R) (β₁ β₂ lam : R) (W₀ W : WDict ι κ R)
    (es : List (Event ι κ)) (h : dictNdl p α β₁ β₂ lam W₀ es = some W) :
    ∃ es', applyPolicyAll p es = some es' ∧ wdAbs W = rwLearn α β₁ β₂ lam (wdAbs W₀) es' := by
  cases hp : applyPolicyAll p es with
  | none => rw [dictNdl_raises p α β₁ β₂ lam W₀ es hp] at h; cases h
  | some es' =>
    obtain ⟨W', h1, h2⟩ := dictNdl_eq_spec p α β₁ β₂ lam W₀ es es' hp
    rw [h] at h1
    cases h1
    exact ⟨es', rfl, h2⟩

/-- **row locality for `dict_ndl`**: two runs (any policies, any event lists)
    whose initial dicts agree on row `o` and whose policy-processed events look
    the same from row `o` (same cues, same "is `o` an outcome?") return the
    same row `o` -/
theorem dictNdl_row_depends_only (p p' : DupPolicy) (α : ι → R) (β₁ β₂ lam : R) (W₀ W₀' : WDict ι κ R)
    (es₁ es₂ es₁' es₂' : List (Event ι κ)) (o : κ)
    (hp₁ : applyPolicyAll p es₁ = some es₁') (hp₂ : applyPolicyAll p' es₂ = some es₂')
    (hW : wdAbs W₀ o = wdAbs W₀' o)
    (hv : es₁'.map (fun e => (e.cues, decide (o ∈ e.outcomes)))
      = es₂'.map (fun e => (e.cues, decide (o ∈ e.outcomes)))) :
    ∃ A B, dictNdl p α β₁ β₂ lam W₀ es₁ = some A ∧ dictNdl p' α β₁ β₂ lam W₀' es₂ = some B ∧
      wdAbs A o = wdAbs B o := by
  obtain ⟨A, a1, a2⟩ := dictNdl_eq_spec p α β₁ β₂ lam W₀ es₁ es₁' hp₁
  obtain ⟨B, b1, b2⟩ := dictNdl_eq_spec p' α β₁ β₂ lam W₀' es₂ es₂' hp₂
  refine ⟨A, B, a1, b1, ?_⟩
  rw [a2, b2]
  exact rwLearn_row_depends_only α β₁ β₂ lam _ _ es₁' es₂' o hW hv

/-- **renaming equivariance for `dict_ndl`** -/
theorem dictNdl_rename_equivariant {ι' κ' : Type} [DecidableEq ι'] [DecidableEq κ']
    (f : ι → ι') (g : κ → κ') (hf : Function.Injective f) (hg : Function.Injective g)
    (p : DupPolicy) (α : ι → R) (α' : ι' → R) (hα : ∀ c, α' (f c) = α c) (β₁ β₂ lam : R)
    (W₀ : WDict ι κ R) (W₀' : WDict ι' κ' R) (hW : ∀ o c, wdAbs W₀' (g o) (f c) = wdAbs W₀ o c)
    (es es' : List (Event ι κ)) (hp : applyPolicyAll p es = some es') :
    ∃ A B, dictNdl p α β₁ β₂ lam W₀ es = some A ∧
      dictNdl p α' β₁ β₂ lam W₀' (es.map (fun e => ⟨e.cues.map f, e.outcomes.map g⟩)) = some B ∧
      ∀ o c, wdAbs B (g o) (f c) = wdAbs A o c := by
  have hp' := applyPolicyAll_map f g p es es' (fun _ _ a _ b _ h => hf h) (fun _ _ a _ b _ h => hg h) hp
  obtain ⟨A, a1, a2⟩ := dictNdl_eq_spec p α β₁ β₂ lam W₀ es es' hp
  obtain ⟨B, b1, b2⟩ := dictNdl_eq_spec p α' β₁ β₂ lam W₀' _ _ hp'
  refine ⟨A, B, a1, b1, ?_⟩
  intro o c
  rw [a2, b2]
  exact rwLearn_rename f g hf hg α α' hα β₁ β₂ lam _ _ hW es' o c

/-- **affine in the initial weights, for `dict_ndl`**: three runs — from a dict
    denoting `W + V` with λ, from `W` with λ, from `V` with λ = 0 -/
theorem dictNdl_affine (p : DupPolicy) (α : ι → R) (β₁ β₂ lam : R) (W₀ V₀ S₀ : WDict ι κ R)
    (hS : ∀ o c, wdAbs S₀ o c = wdAbs W₀ o c + wdAbs V₀ o c)
    (es es' : List (Event ι κ)) (hp : applyPolicyAll p es = some es') :
    ∃ S W V, dictNdl p α β₁ β₂ lam S₀ es = some S ∧ dictNdl p α β₁ β₂ lam W₀ es = some W ∧
      dictNdl p α β₁ β₂ 0 V₀ es = some V ∧ ∀ o c, wdAbs S o c = wdAbs W o c + wdAbs V o c := by
  obtain ⟨S, s1, s2⟩ := dictNdl_eq_spec p α β₁ β₂ lam S₀ es es' hp
  obtain ⟨W, w1, w2⟩ := dictNdl_eq_spec p α β₁ β₂ lam W₀ es es' hp
  obtain ⟨V, v1, v2⟩ := dictNdl_eq_spec p α β₁ β₂ 0 V₀ es es' hp
  refine ⟨S, W, V, s1, w1, v1, ?_⟩
  intro o c
  rw [s2, w2, v2, ← rwLearn_add]
  congr 1
  funext o c
  exact hS o c

theorem wdAbs_nil : wdAbs ([] : WDict ι κ R) = fun _ _ => 0 := by
  funext o c
  simp [wdAbs, wdRow, alGet]

/-- **proportional to λ from zero, for `dict_ndl`** -/
theorem dictNdl_lambda_homogeneous (p : DupPolicy) (α : ι → R) (β₁ β₂ lam k : R)
    (es es' : List (Event ι κ)) (hp : applyPolicyAll p es = some es') :
    ∃ A B, dictNdl p α β₁ β₂ (k * lam) [] es = some A ∧ dictNdl p α β₁ β₂ lam [] es = some B ∧
      ∀ o c, wdAbs A o c = k * wdAbs B o c := by
  obtain ⟨A, a1, a2⟩ := dictNdl_eq_spec p α β₁ β₂ (k * lam) [] es es' hp
  obtain ⟨B, b1, b2⟩ := dictNdl_eq_spec p α β₁ β₂ lam [] es es' hp
  refine ⟨A, B, a1, b1, ?_⟩
  intro o c
  rw [a2, b2, wdAbs_nil]
  have := rwLearn_smul α β₁ β₂ lam k (fun _ _ => (0 : R)) es' o c
  simpa using this

/-- **per-cue α = 0, for `dict_ndl`**: a cue with learning rate 0 keeps its weight -/
theorem dictNdl_alpha_zero_cue (p : DupPolicy) (α : ι → R) (β₁ β₂ lam : R) (W₀ W : WDict ι κ R)
    (es : List (Event ι κ)) (h : dictNdl p α β₁ β₂ lam W₀ es = some W) (o : κ) (c : ι) (hc : α c = 0) :
    wdAbs W o c = wdAbs W₀ o c := by
  obtain ⟨es', _, h2⟩ := dictNdl_transport p α β₁ β₂ lam W₀ W es h
  rw [h2]
  exact rwLearn_alpha_zero_cue α β₁ β₂ lam _ es' o c hc

/-- **β₂ = 0, for `dict_ndl`**: a row whose outcome occurs in no event is untouched -/
theorem dictNdl_beta2_zero (p : DupPolicy) (α : ι → R) (β₁ lam : R) (W₀ W : WDict ι κ R)
    (es : List (Event ι κ)) (h : dictNdl p α β₁ 0 lam W₀ es = some W) (o : κ)
    (ho : ∀ e ∈ es, o ∉ e.outcomes) : wdAbs W o = wdAbs W₀ o := by
  obtain ⟨es', hp, h2⟩ := dictNdl_transport p α β₁ 0 lam W₀ W es h
  rw [h2]
  apply rwLearn_beta2_zero_absent
  intro e' he' hoe
  obtain ⟨e, he, hpe⟩ := applyPolicyAll_mem p es es' hp e' he'
  obtain ⟨_, s2, _, _⟩ := applyPolicy_sub p e e' hpe
  exact ho e he ((s2 o).mp hoe)

end Spec

/-! ## `ndl.ndl` -/

/-- **row locality for `ndl.ndl`**: two runs from scratch — possibly with
    different methods, chunk sizes and duplicate policies — over event lists
    whose policy-processed events look the same from outcome `o` return the
    same weights for `o` at every cue -/
theorem ndlModel_row_depends_only (magic version : Nat) (hm : magic < 4294967296) (hv : version < 4294967296)
    (cfg₁ cfg₂ : NdlCfg) (alpha β₁ β₂ lam : R)
    (es₁ es₂ es₁' es₂' : List (Event String String)) (o : String)
    (hcfg₁ : CfgOK cfg₁ (countNames es₁).2.length) (hcfg₂ : CfgOK cfg₂ (countNames es₂).2.length)
    (hp₁ : applyPolicyAll cfg₁.policy es₁ = some es₁') (hp₂ : applyPolicyAll cfg₂.policy es₂ = some es₂')
    (hfit₁ : Fits32 es₁) (hfit₂ : Fits32 es₂)
    (hview : es₁'.map (fun e => (e.cues, decide (o ∈ e.outcomes)))
      = es₂'.map (fun e => (e.cues, decide (o ∈ e.outcomes)))) :
    ∃ a b, ndlModel magic version cfg₁ alpha β₁ β₂ lam none es₁ = .ok (a, es₁.length) ∧
      ndlModel magic version cfg₂ alpha β₁ β₂ lam none es₂ = .ok (b, es₂.length) ∧
      ∀ c, a.get o c = b.get o c := by
  obtain ⟨a, a1, a2⟩ := ndlModel_eq_spec magic version hm hv cfg₁ alpha β₁ β₂ lam es₁ es₁' hcfg₁ hp₁ hfit₁
  obtain ⟨b, b1, b2⟩ := ndlModel_eq_spec magic version hm hv cfg₂ alpha β₁ β₂ lam es₂ es₂' hcfg₂ hp₂ hfit₂
  refine ⟨a, b, a1, b1, ?_⟩
  intro c
  rw [a2, b2]
  exact congrFun (rwLearn_row_depends_only (fun _ => alpha) β₁ β₂ lam _ _ es₁' es₂' o rfl hview) c

/-- **renaming equivariance for `ndl.ndl`**: renaming the cues by an injection
    `f` and the outcomes by an injection `g` in the event file renames the
    returned labelled matrix -/
theorem ndlModel_rename_equivariant (magic version : Nat) (hm : magic < 4294967296) (hv : version < 4294967296)
    (cfg : NdlCfg) (alpha β₁ β₂ lam : R)
    (f g : String → String) (hf : Function.Injective f) (hg : Function.Injective g)
    (es es' : List (Event String String)) (hp : applyPolicyAll cfg.policy es = some es')
    (hcfg : CfgOK cfg (countNames es).2.length)
    (hcfg' : CfgOK cfg (countNames (es.map (fun e => ⟨e.cues.map f, e.outcomes.map g⟩))).2.length)
    (hfit : Fits32 es) (hfit' : Fits32 (es.map (fun e => ⟨e.cues.map f, e.outcomes.map g⟩))) :
    ∃ a b, ndlModel magic version cfg alpha β₁ β₂ lam none es = .ok (a, es.length) ∧
      ndlModel magic version cfg alpha β₁ β₂ lam none (es.map (fun e => ⟨e.cues.map f, e.outcomes.map g⟩))
        = .ok (b, es.length) ∧
      ∀ o c, b.get (g o) (f c) = a.get o c := by
  have hp' := applyPolicyAll_map f g cfg.policy es es' (fun _ _ a _ b _ h => hf h)
    (fun _ _ a _ b _ h => hg h) hp
  obtain ⟨a, a1, a2⟩ := ndlModel_eq_spec magic version hm hv cfg alpha β₁ β₂ lam es es' hcfg hp hfit
  obtain ⟨b, b1, b2⟩ := ndlModel_eq_spec magic version hm hv cfg alpha β₁ β₂ lam _ _ hcfg' hp' hfit'
  refine ⟨a, b, a1, ?_, ?_⟩
  · rw [b1, List.length_map]
  · intro o c
    rw [a2, b2]
    exact rwLearn_rename f g hf hg (fun _ => alpha) (fun _ => alpha) (fun _ => rfl) β₁ β₂ lam
      (fun _ _ => 0) (fun _ _ => 0) (fun _ _ => rfl) es' o c

/-- **affine in the initial weights, for `ndl.ndl`**: three continued runs — from a
    labelled matrix denoting `w + v` with λ, from `w` with λ, from `v` with λ = 0 -/
theorem ndlModel_affine (magic version : Nat) (hm : magic < 4294967296) (hv : version < 4294967296)
    (cfg : NdlCfg) (alpha β₁ β₂ lam : R)
    (w v s : LW R) (hs : ∀ o c, s.get o c = w.get o c + v.get o c)
    (es es' : List (Event String String)) (hp : applyPolicyAll cfg.policy es = some es')
    (hcw : CfgOK cfg (mergedOutcomes w es).length) (hcv : CfgOK cfg (mergedOutcomes v es).length)
    (hcs : CfgOK cfg (mergedOutcomes s es).length)
    (fw : Fits32With w es) (fv : Fits32With v es) (fs : Fits32With s es) :
    ∃ rs rw rv, ndlModel magic version cfg alpha β₁ β₂ lam (some s) es = .ok (rs, es.length) ∧
      ndlModel magic version cfg alpha β₁ β₂ lam (some w) es = .ok (rw, es.length) ∧
      ndlModel magic version cfg alpha β₁ β₂ 0 (some v) es = .ok (rv, es.length) ∧
      ∀ o c, rs.get o c = rw.get o c + rv.get o c := by
  obtain ⟨rs, s1, s2⟩ := ndlModel_continue_eq_spec magic version hm hv cfg alpha β₁ β₂ lam s es es' hcs hp fs
  obtain ⟨rw, w1, w2⟩ := ndlModel_continue_eq_spec magic version hm hv cfg alpha β₁ β₂ lam w es es' hcw hp fw
  obtain ⟨rv, v1, v2⟩ := ndlModel_continue_eq_spec magic version hm hv cfg alpha β₁ β₂ 0 v es es' hcv hp fv
  refine ⟨rs, rw, rv, s1, w1, v1, ?_⟩
  intro o c
  rw [s2, w2, v2, ← rwLearn_add]
  congr 1
  funext o c
  exact hs o c

/-- **proportional to λ from zero, for `ndl.ndl`** -/
theorem ndlModel_lambda_homogeneous (magic version : Nat) (hm : magic < 4294967296) (hv : version < 4294967296)
    (cfg : NdlCfg) (alpha β₁ β₂ lam k : R)
    (es es' : List (Event String String)) (hcfg : CfgOK cfg (countNames es).2.length)
    (hp : applyPolicyAll cfg.policy es = some es') (hfit : Fits32 es) :
    ∃ a b, ndlModel magic version cfg alpha β₁ β₂ (k * lam) none es = .ok (a, es.length) ∧
      ndlModel magic version cfg alpha β₁ β₂ lam none es = .ok (b, es.length) ∧
      ∀ o c, a.get o c = k * b.get o c := by
  obtain ⟨a, a1, a2⟩ := ndlModel_eq_spec magic version hm hv cfg alpha β₁ β₂ (k * lam) es es' hcfg hp hfit
  obtain ⟨b, b1, b2⟩ := ndlModel_eq_spec magic version hm hv cfg alpha β₁ β₂ lam es es' hcfg hp hfit
  refine ⟨a, b, a1, b1, ?_⟩
  intro o c
  rw [a2, b2]
  have := rwLearn_smul (fun _ => alpha) β₁ β₂ lam k (fun _ _ => (0 : R)) es' o c
  simpa using this

/-- **α = 0, for `ndl.ndl`** (its α is one number): the given weights come back -/
theorem ndlModel_alpha_zero (magic version : Nat) (hm : magic < 4294967296) (hv : version < 4294967296)
    (cfg : NdlCfg) (β₁ β₂ lam : R)
    (w : LW R) (es es' : List (Event String String)) (hcfg : CfgOK cfg (mergedOutcomes w es).length)
    (hp : applyPolicyAll cfg.policy es = some es')
    (hfit : Fits32With w es) :
    ∃ r, ndlModel magic version cfg 0 β₁ β₂ lam (some w) es = .ok (r, es.length) ∧
      ∀ o c, r.get o c = w.get o c := by
  obtain ⟨r, h1, h2⟩ := ndlModel_continue_eq_spec magic version hm hv cfg 0 β₁ β₂ lam w es es' hcfg hp hfit
  refine ⟨r, h1, ?_⟩
  intro o c
  rw [h2, rwLearn_alpha_zero]

/-- **β₂ = 0, for `ndl.ndl`**: the row of an outcome that occurs in no event of the
    file comes back unchanged -/
theorem ndlModel_beta2_zero (magic version : Nat) (hm : magic < 4294967296) (hv : version < 4294967296)
    (cfg : NdlCfg) (alpha β₁ lam : R)
    (w : LW R) (es es' : List (Event String String)) (hcfg : CfgOK cfg (mergedOutcomes w es).length)
    (hp : applyPolicyAll cfg.policy es = some es')
    (hfit : Fits32With w es) (o : String) (ho : ∀ e ∈ es, o ∉ e.outcomes) :
    ∃ r, ndlModel magic version cfg alpha β₁ 0 lam (some w) es = .ok (r, es.length) ∧
      ∀ c, r.get o c = w.get o c := by
  obtain ⟨r, h1, h2⟩ := ndlModel_continue_eq_spec magic version hm hv cfg alpha β₁ 0 lam w es es' hcfg hp hfit
  refine ⟨r, h1, ?_⟩
  intro c
  rw [h2]
  have habs : ∀ e' ∈ es', o ∉ e'.outcomes := by
    intro e' he' hoe
    obtain ⟨e, he, hpe⟩ := applyPolicyAll_mem cfg.policy es es' hp e' he'
    obtain ⟨_, s2, _, _⟩ := applyPolicy_sub cfg.policy e e' hpe
    exact ho e he ((s2 o).mp hoe)
  exact congrFun (rwLearn_beta2_zero_absent (fun _ => alpha) β₁ lam _ es' o habs) c

/-! ## `ndl.ndl` as CALLED: the laws with labels -/

/-- the labels of whatever the CALL returns: from scratch the names in order of
    first occurrence, with `weights=w` the given labels followed by the new names -/
theorem ndlCall_labels (magic version : Nat) (cfg : NdlCfg) (alpha β₁ β₂ lam : R) (W0 : Option (LW R))
    (es : List (Event String String)) (r : LW R) (n : Nat)
    (h : ndlCall magic version cfg alpha β₁ β₂ lam W0 es = .ok (r, n)) :
    r.cues = (match W0 with | none => (countNames es).1 | some w => mergedCues w es) ∧
    r.outcomes = (match W0 with | none => (countNames es).2 | some w => mergedOutcomes w es) := by
  have := ndlModel_labels magic version cfg alpha β₁ β₂ lam W0 es r n (ndlCall_ok _ _ _ _ _ _ _ _ _ _ h)
  cases W0 <;> exact this

theorem countNames_rename (f g : String → String) (hf : Function.Injective f) (hg : Function.Injective g)
    (es : List (Event String String)) :
    countNames (es.map (fun e => ⟨e.cues.map f, e.outcomes.map g⟩))
      = ((countNames es).1.map f, (countNames es).2.map g) := by
  unfold countNames
  have h1 : ∀ es : List (Event String String),
      (es.map (fun e => (⟨e.cues.map f, e.outcomes.map g⟩ : Event String String))).flatMap (·.cues)
      = (es.flatMap (·.cues)).map f := by
    intro es
    induction es with
    | nil => rfl
    | cons e es ih => simp only [List.map_cons, List.flatMap_cons, List.map_append, ih]
  have h2 : ∀ es : List (Event String String),
      (es.map (fun e => (⟨e.cues.map f, e.outcomes.map g⟩ : Event String String))).flatMap (·.outcomes)
      = (es.flatMap (·.outcomes)).map g := by
    intro es
    induction es with
    | nil => rfl
    | cons e es ih => simp only [List.map_cons, List.flatMap_cons, List.map_append, ih]
  rw [h1 es, h2 es, dedupKeepFirst_map_injOn f _ (fun a _ b _ h => hf h),
    dedupKeepFirst_map_injOn g _ (fun a _ b _ h => hg h)]

/-- **row locality, the call** -/
theorem ndlCall_row_depends_only (magic version : Nat) (hm : magic < 4294967296) (hv : version < 4294967296)
    (cfg₁ cfg₂ : NdlCfg) (alpha β₁ β₂ lam : R)
    (es₁ es₂ es₁' es₂' : List (Event String String)) (o : String) (hne₁ : es₁ ≠ []) (hne₂ : es₂ ≠ [])
    (hcfg₁ : CfgOK cfg₁ (countNames es₁).2.length) (hcfg₂ : CfgOK cfg₂ (countNames es₂).2.length)
    (hp₁ : applyPolicyAll cfg₁.policy es₁ = some es₁') (hp₂ : applyPolicyAll cfg₂.policy es₂ = some es₂')
    (hfit₁ : Fits32 es₁) (hfit₂ : Fits32 es₂)
    (hview : es₁'.map (fun e => (e.cues, decide (o ∈ e.outcomes)))
      = es₂'.map (fun e => (e.cues, decide (o ∈ e.outcomes)))) :
    ∃ a b, ndlCall magic version cfg₁ alpha β₁ β₂ lam none es₁ = .ok (a, es₁.length) ∧
      ndlCall magic version cfg₂ alpha β₁ β₂ lam none es₂ = .ok (b, es₂.length) ∧
      a.cues = (countNames es₁).1 ∧ a.outcomes = (countNames es₁).2 ∧
      b.cues = (countNames es₂).1 ∧ b.outcomes = (countNames es₂).2 ∧
      ∀ c, a.get o c = b.get o c := by
  obtain ⟨a, b, a1, b1, h⟩ := ndlModel_row_depends_only magic version hm hv cfg₁ cfg₂ alpha β₁ β₂ lam
    es₁ es₂ es₁' es₂' o hcfg₁ hcfg₂ hp₁ hp₂ hfit₁ hfit₂ hview
  rw [← ndlCall_nonempty _ _ _ _ _ _ _ _ _ hne₁] at a1
  rw [← ndlCall_nonempty _ _ _ _ _ _ _ _ _ hne₂] at b1
  obtain ⟨la, la'⟩ := ndlCall_labels _ _ _ _ _ _ _ _ _ _ _ a1
  obtain ⟨lb, lb'⟩ := ndlCall_labels _ _ _ _ _ _ _ _ _ _ _ b1
  exact ⟨a, b, a1, b1, la, la', lb, lb', h⟩

/-- **renaming equivariance, the call**: the labels of the second run are the
    renamed labels of the first, in the same order -/
theorem ndlCall_rename_equivariant (magic version : Nat) (hm : magic < 4294967296) (hv : version < 4294967296)
    (cfg : NdlCfg) (alpha β₁ β₂ lam : R)
    (f g : String → String) (hf : Function.Injective f) (hg : Function.Injective g)
    (es es' : List (Event String String)) (hne : es ≠ []) (hp : applyPolicyAll cfg.policy es = some es')
    (hcfg : CfgOK cfg (countNames es).2.length) (hfit : Fits32 es) :
    ∃ a b, ndlCall magic version cfg alpha β₁ β₂ lam none es = .ok (a, es.length) ∧
      ndlCall magic version cfg alpha β₁ β₂ lam none (es.map (fun e => ⟨e.cues.map f, e.outcomes.map g⟩))
        = .ok (b, es.length) ∧
      a.cues = (countNames es).1 ∧ a.outcomes = (countNames es).2 ∧
      b.cues = a.cues.map f ∧ b.outcomes = a.outcomes.map g ∧
      ∀ o c, b.get (g o) (f c) = a.get o c := by
  have hcn := countNames_rename f g hf hg es
  have hcfg' : CfgOK cfg (countNames (es.map (fun e => ⟨e.cues.map f, e.outcomes.map g⟩))).2.length := by
    rw [hcn]; simpa using hcfg
  have hfit' : Fits32 (es.map (fun e => (⟨e.cues.map f, e.outcomes.map g⟩ : Event String String))) := by
    refine ⟨by simpa using hfit.nEvents, by rw [hcn]; simpa using hfit.nCues,
      by rw [hcn]; simpa using hfit.nOuts, ?_⟩
    intro e he
    obtain ⟨e0, he0, rfl⟩ := List.mem_map.mp he
    simpa using hfit.perEvent e0 he0
  obtain ⟨a, b, a1, b1, h⟩ := ndlModel_rename_equivariant magic version hm hv cfg alpha β₁ β₂ lam f g hf hg
    es es' hp hcfg hcfg' hfit hfit'
  rw [← ndlCall_nonempty _ _ _ _ _ _ _ _ _ hne] at a1
  rw [← ndlCall_nonempty _ _ _ _ _ _ _ _ _ (by simpa using hne)] at b1
  obtain ⟨la, la'⟩ := ndlCall_labels _ _ _ _ _ _ _ _ _ _ _ a1
  obtain ⟨lb, lb'⟩ := ndlCall_labels _ _ _ _ _ _ _ _ _ _ _ b1
  simp only at la la' lb lb'
  refine ⟨a, b, a1, b1, la, la', ?_, ?_, h⟩
  · rw [lb, hcn, la]
  · rw [lb', hcn, la']

/-- **λ-homogeneity from zero, the call**: same labels in both runs -/
theorem ndlCall_lambda_homogeneous (magic version : Nat) (hm : magic < 4294967296) (hv : version < 4294967296)
    (cfg : NdlCfg) (alpha β₁ β₂ lam k : R)
    (es es' : List (Event String String)) (hne : es ≠ []) (hcfg : CfgOK cfg (countNames es).2.length)
    (hp : applyPolicyAll cfg.policy es = some es') (hfit : Fits32 es) :
    ∃ a b, ndlCall magic version cfg alpha β₁ β₂ (k * lam) none es = .ok (a, es.length) ∧
      ndlCall magic version cfg alpha β₁ β₂ lam none es = .ok (b, es.length) ∧
      a.cues = (countNames es).1 ∧ a.outcomes = (countNames es).2 ∧ b.cues = a.cues ∧ b.outcomes = a.outcomes ∧
      ∀ o c, a.get o c = k * b.get o c := by
  obtain ⟨a, b, a1, b1, h⟩ := ndlModel_lambda_homogeneous magic version hm hv cfg alpha β₁ β₂ lam k es es' hcfg hp hfit
  rw [← ndlCall_nonempty _ _ _ _ _ _ _ _ _ hne] at a1 b1
  obtain ⟨la, la'⟩ := ndlCall_labels _ _ _ _ _ _ _ _ _ _ _ a1
  obtain ⟨lb, lb'⟩ := ndlCall_labels _ _ _ _ _ _ _ _ _ _ _ b1
  simp only at la la' lb lb'
  exact ⟨a, b, a1, b1, la, la', by rw [lb, la], by rw [lb', la'], h⟩

/-- **affine in the initial weights, the call**: each result is labelled with its
    own given labels followed by the new names -/
theorem ndlCall_affine (magic version : Nat) (hm : magic < 4294967296) (hv : version < 4294967296)
    (cfg : NdlCfg) (alpha β₁ β₂ lam : R)
    (w v s : LW R) (hs : ∀ o c, s.get o c = w.get o c + v.get o c)
    (es es' : List (Event String String)) (hne : es ≠ []) (hp : applyPolicyAll cfg.policy es = some es')
    (hcw : CfgOK cfg (mergedOutcomes w es).length) (hcv : CfgOK cfg (mergedOutcomes v es).length)
    (hcs : CfgOK cfg (mergedOutcomes s es).length)
    (fw : Fits32With w es) (fv : Fits32With v es) (fs : Fits32With s es) :
    ∃ rs rw rv, ndlCall magic version cfg alpha β₁ β₂ lam (some s) es = .ok (rs, es.length) ∧
      ndlCall magic version cfg alpha β₁ β₂ lam (some w) es = .ok (rw, es.length) ∧
      ndlCall magic version cfg alpha β₁ β₂ 0 (some v) es = .ok (rv, es.length) ∧
      (rs.cues = mergedCues s es ∧ rs.outcomes = mergedOutcomes s es) ∧
      (rw.cues = mergedCues w es ∧ rw.outcomes = mergedOutcomes w es) ∧
      (rv.cues = mergedCues v es ∧ rv.outcomes = mergedOutcomes v es) ∧
      ∀ o c, rs.get o c = rw.get o c + rv.get o c := by
  obtain ⟨rs, rw', rv, s1, w1, v1, h⟩ := ndlModel_affine magic version hm hv cfg alpha β₁ β₂ lam w v s hs es es' hp
    hcw hcv hcs fw fv fs
  rw [← ndlCall_nonempty _ _ _ _ _ _ _ _ _ hne] at s1 w1 v1
  exact ⟨rs, rw', rv, s1, w1, v1, ndlCall_labels _ _ _ _ _ _ _ _ _ _ _ s1, ndlCall_labels _ _ _ _ _ _ _ _ _ _ _ w1,
    ndlCall_labels _ _ _ _ _ _ _ _ _ _ _ v1, h⟩

/-- **α = 0, the call**: the given weights come back, under the merged labels -/
theorem ndlCall_alpha_zero (magic version : Nat) (hm : magic < 4294967296) (hv : version < 4294967296)
    (cfg : NdlCfg) (β₁ β₂ lam : R)
    (w : LW R) (es es' : List (Event String String)) (hne : es ≠ [])
    (hcfg : CfgOK cfg (mergedOutcomes w es).length)
    (hp : applyPolicyAll cfg.policy es = some es') (hfit : Fits32With w es) :
    ∃ r, ndlCall magic version cfg 0 β₁ β₂ lam (some w) es = .ok (r, es.length) ∧
      r.cues = mergedCues w es ∧ r.outcomes = mergedOutcomes w es ∧
      ∀ o c, r.get o c = w.get o c := by
  obtain ⟨r, h1, h2⟩ := ndlModel_alpha_zero magic version hm hv cfg β₁ β₂ lam w es es' hcfg hp hfit
  rw [← ndlCall_nonempty _ _ _ _ _ _ _ _ _ hne] at h1
  obtain ⟨l1, l2⟩ := ndlCall_labels _ _ _ _ _ _ _ _ _ _ _ h1
  exact ⟨r, h1, l1, l2, h2⟩

/-- **β₂ = 0, the call**: the row of an outcome that occurs in no event comes back
    unchanged -/
theorem ndlCall_beta2_zero (magic version : Nat) (hm : magic < 4294967296) (hv : version < 4294967296)
    (cfg : NdlCfg) (alpha β₁ lam : R)
    (w : LW R) (es es' : List (Event String String)) (hne : es ≠ [])
    (hcfg : CfgOK cfg (mergedOutcomes w es).length)
    (hp : applyPolicyAll cfg.policy es = some es')
    (hfit : Fits32With w es) (o : String) (ho : ∀ e ∈ es, o ∉ e.outcomes) :
    ∃ r, ndlCall magic version cfg alpha β₁ 0 lam (some w) es = .ok (r, es.length) ∧
      r.cues = mergedCues w es ∧ r.outcomes = mergedOutcomes w es ∧
      ∀ c, r.get o c = w.get o c := by
  obtain ⟨r, h1, h2⟩ := ndlModel_beta2_zero magic version hm hv cfg alpha β₁ lam w es es' hcfg hp hfit o ho
  rw [← ndlCall_nonempty _ _ _ _ _ _ _ _ _ hne] at h1
  obtain ⟨l1, l2⟩ := ndlCall_labels _ _ _ _ _ _ _ _ _ _ _ h1
  exact ⟨r, h1, l1, l2, h2⟩

theorem applyPolicyAll_filter {ι κ : Type} [DecidableEq ι] [DecidableEq κ] (p : DupPolicy) (q : Event ι κ → Bool)
    (q' : Event ι κ → Bool) (hq : ∀ e e', applyPolicy p e = some e' → q' e' = q e)
    (es es' : List (Event ι κ)) (hp : applyPolicyAll p es = some es') :
    applyPolicyAll p (es.filter q) = some (es'.filter q') := by
  induction es generalizing es' with
  | nil => simp only [applyPolicyAll, Option.some.injEq] at hp; subst hp; rfl
  | cons e es ih =>
    unfold applyPolicyAll at hp
    cases he : applyPolicy p e with
    | none => rw [he] at hp; cases hp
    | some e' =>
      rw [he] at hp
      simp only at hp
      cases hr : applyPolicyAll p es with
      | none => rw [hr] at hp; cases hp
      | some r =>
        rw [hr] at hp
        simp only [Option.some.injEq] at hp
        subst hp
        have hqe := hq e e' he
        by_cases hqv : q e = true
        · rw [List.filter_cons_of_pos hqv, List.filter_cons_of_pos (by rw [hqe]; exact hqv)]
          simp only [applyPolicyAll, he, ih r hr]
        · rw [List.filter_cons_of_neg hqv, List.filter_cons_of_neg (by rw [hqe]; exact hqv)]
          exact ih r hr

/-- **β₂ = 0, sequence form, the call**: continuing from `w` on the whole file and on
    the file with all events NOT containing outcome `o` removed gives the same row
    `o` (the second call needs its own legal arguments: the filtered file must
    still have an event, else it raises `IOError`) -/
theorem ndlCall_beta2_zero_filter (magic version : Nat) (hm : magic < 4294967296) (hv : version < 4294967296)
    (cfg : NdlCfg) (alpha β₁ lam : R)
    (w : LW R) (es es' : List (Event String String)) (o : String)
    (hne : es.filter (fun e => decide (o ∈ e.outcomes)) ≠ [])
    (hcfg : CfgOK cfg (mergedOutcomes w es).length)
    (hcfgF : CfgOK cfg (mergedOutcomes w (es.filter (fun e => decide (o ∈ e.outcomes)))).length)
    (hp : applyPolicyAll cfg.policy es = some es')
    (hfit : Fits32With w es) (hfitF : Fits32With w (es.filter (fun e => decide (o ∈ e.outcomes)))) :
    ∃ r rF, ndlCall magic version cfg alpha β₁ 0 lam (some w) es = .ok (r, es.length) ∧
      ndlCall magic version cfg alpha β₁ 0 lam (some w) (es.filter (fun e => decide (o ∈ e.outcomes)))
        = .ok (rF, (es.filter (fun e => decide (o ∈ e.outcomes))).length) ∧
      r.cues = mergedCues w es ∧ r.outcomes = mergedOutcomes w es ∧
      rF.cues = mergedCues w (es.filter (fun e => decide (o ∈ e.outcomes))) ∧
      rF.outcomes = mergedOutcomes w (es.filter (fun e => decide (o ∈ e.outcomes))) ∧
      ∀ c, r.get o c = rF.get o c := by
  have hne' : es ≠ [] := by
    intro h; apply hne; rw [h]; rfl
  have hpF : applyPolicyAll cfg.policy (es.filter (fun e => decide (o ∈ e.outcomes)))
      = some (es'.filter (fun e => decide (o ∈ e.outcomes))) := by
    apply applyPolicyAll_filter cfg.policy _ _ _ es es' hp
    intro e e' he
    obtain ⟨_, s2, _, _⟩ := applyPolicy_sub cfg.policy e e' he
    exact decide_eq_decide.mpr (s2 o)
  obtain ⟨r, h1, h2⟩ := ndlCall_continue_eq_spec magic version hm hv cfg alpha β₁ 0 lam w es es' hne' hcfg hp hfit
  obtain ⟨rF, f1, f2⟩ := ndlCall_continue_eq_spec magic version hm hv cfg alpha β₁ 0 lam w _ _ hne hcfgF hpF hfitF
  obtain ⟨l1, l2⟩ := ndlCall_labels _ _ _ _ _ _ _ _ _ _ _ h1
  obtain ⟨m1, m2⟩ := ndlCall_labels _ _ _ _ _ _ _ _ _ _ _ f1
  refine ⟨r, rF, h1, f1, l1, l2, m1, m2, fun c => ?_⟩
  rw [h2, f2]
  exact congrFun (rwLearn_beta2_zero_filter (fun _ => alpha) β₁ lam _ es' o) c

/-- **the order of cues and of outcomes inside the events is irrelevant, the call**
    (`cue_perm`, `event_perm`, `events_perm` lifted): two event files that agree
    event by event up to the order inside the events (`EventsPerm`) give, with the
    same arguments, results with the same labels up to order and the same weight at
    every pair of names.  All hypotheses are on the first file. -/
theorem ndlCall_events_perm (magic version : Nat) (hm : magic < 4294967296) (hv : version < 4294967296)
    (cfg : NdlCfg) (alpha β₁ β₂ lam : R) (es₁ es₂ es₁' : List (Event String String))
    (h : EventsPerm es₁ es₂) (hne : es₁ ≠ [])
    (hcfg : CfgOK cfg (countNames es₁).2.length)
    (hp : applyPolicyAll cfg.policy es₁ = some es₁') (hfit : Fits32 es₁) :
    ∃ a b, ndlCall magic version cfg alpha β₁ β₂ lam none es₁ = .ok (a, es₁.length) ∧
      ndlCall magic version cfg alpha β₁ β₂ lam none es₂ = .ok (b, es₂.length) ∧
      a.cues = (countNames es₁).1 ∧ a.outcomes = (countNames es₁).2 ∧
      b.cues = (countNames es₂).1 ∧ b.outcomes = (countNames es₂).2 ∧
      a.cues ~ b.cues ∧ a.outcomes ~ b.outcomes ∧
      ∀ o c, a.get o c = b.get o c := by
  obtain ⟨es₂', hp₂, hperm'⟩ := applyPolicyAll_perm_some cfg.policy es₁ es₂ es₁' h hp
  obtain ⟨pc, po⟩ := countNames_perm h
  have hne₂ : es₂ ≠ [] := by
    intro h2; apply hne; have := h.length_eq; rw [h2] at this; exact List.length_eq_zero_iff.mp this
  obtain ⟨a, a1, a2⟩ := ndlCall_eq_spec magic version hm hv cfg alpha β₁ β₂ lam es₁ es₁' hne hcfg hp hfit
  obtain ⟨b, b1, b2⟩ := ndlCall_eq_spec magic version hm hv cfg alpha β₁ β₂ lam es₂ es₂' hne₂
    (by rw [← po.length_eq]; exact hcfg) hp₂ (fits32_perm h hfit)
  obtain ⟨la, la'⟩ := ndlCall_labels _ _ _ _ _ _ _ _ _ _ _ a1
  obtain ⟨lb, lb'⟩ := ndlCall_labels _ _ _ _ _ _ _ _ _ _ _ b1
  simp only at la la' lb lb'
  refine ⟨a, b, a1, b1, la, la', lb, lb', by rw [la, lb]; exact pc, by rw [la', lb']; exact po, fun o c => ?_⟩
  rw [a2, b2, rwLearn_perm_events (fun _ => alpha) β₁ β₂ lam _ es₁' es₂' hperm']

end Pyndl
