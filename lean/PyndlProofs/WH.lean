import PyndlModel.WH
import PyndlProofs.SeqSchedule

set_option linter.unusedSectionVars false
set_option linter.unusedSimpArgs false
set_option linter.unusedVariables false

namespace Pyndl
open List

variable {R : Type} [CommRing R]

/-! ## generic row kernels: read/write locality ⇒ schedule independence -/

/-- a micro-step function that reads and writes only its own weight row -/
structure RowStep (n nOut : Nat) (ok : Event Nat Nat → Prop)
    (step : Array R → Nat → Event Nat Nat → Array R)
    (f : Nat → (Nat → R) → Event Nat Nat → (Nat → R)) : Prop where
  spec : ∀ (w : Array R), w.size = n * nOut → ∀ o, o < nOut → ∀ e, ok e →
    (step w o e).size = n * nOut ∧
    rowFn n (step w o e) o = f o (rowFn n w o) e ∧
    ∀ o', o' ≠ o → rowFn n (step w o e) o' = rowFn n w o'

theorem execWith_row {n nOut : Nat} {ok : Event Nat Nat → Prop}
    {step : Array R → Nat → Event Nat Nat → Array R}
    {f : Nat → (Nat → R) → Event Nat Nat → (Nat → R)} (h : RowStep n nOut ok step f)
    (s : List MicroStep) (hs : ∀ st ∈ s, st.row < nOut ∧ ok st.ev) (w : Array R) (hw : w.size = n * nOut)
    (o : Nat) :
    (execWith step w s).size = n * nOut ∧
    rowFn n (execWith step w s) o
      = ((s.filter (fun st => st.row = o)).map (·.ev)).foldl (f o) (rowFn n w o) := by
  induction s generalizing w with
  | nil => exact ⟨hw, rfl⟩
  | cons st s ih =>
    have hst := hs st (by simp)
    obtain ⟨k1, k2, k3⟩ := h.spec w hw st.row hst.1 st.ev hst.2
    unfold execWith at *
    simp only [List.foldl_cons]
    obtain ⟨i1, i2⟩ := ih (fun x hx => hs x (by simp [hx])) _ k1
    refine ⟨i1, ?_⟩
    rw [i2]
    by_cases hr : st.row = o
    · subst hr
      simp only [List.filter_cons, decide_true, if_true, List.map_cons, List.foldl_cons, k2]
    · have hr' : o ≠ st.row := fun e => hr e.symm
      simp only [List.filter_cons, hr, decide_false, Bool.false_eq_true, if_false, k3 o hr']

/-- **schedule independence for any row kernel under OpenMP**: every valid
    schedule gives, on every owned row, the fold of the row function over all
    events of all files in order. -/
theorem rowkernel_openmp_independent {n nOut : Nat} {ok : Event Nat Nat → Prop}
    {step : Array R → Nat → Event Nat Nat → Array R}
    {f : Nat → (Nat → R) → Event Nat Nat → (Nat → R)} (h : RowStep n nOut ok step f)
    {parts : List (List Nat)} (hp : PartsOk parts) (files : List (List (Event Nat Nat)))
    (hrows : ∀ k, k < parts.length → ∀ o ∈ parts.getD k [], o < nOut)
    (hev : ∀ e ∈ files.flatten, ok e)
    (w : Array R) (hw : w.size = n * nOut) (s : List MicroStep) (hv : ValidOpenmp parts files s)
    (k : Nat) (hk : k < parts.length) (o : Nat) (ho : o ∈ parts.getD k []) :
    rowFn n (execWith step w s) o = files.flatten.foldl (f o) (rowFn n w o) := by
  have hs : ∀ st ∈ s, st.row < nOut ∧ ok st.ev := by
    have key : ∀ (f0 : Nat) (files : List (List (Event Nat Nat))) (s : List MicroStep),
        (∀ e ∈ files.flatten, ok e) → ValidOpenmpFrom parts f0 files s →
        ∀ st ∈ s, st.row < nOut ∧ ok st.ev := by
      intro f0 files
      induction files generalizing f0 with
      | nil => intro s _ hv st hst; simp [ValidOpenmpFrom] at hv; subst hv; simp at hst
      | cons es rest ih =>
        intro s hev hv st hst
        obtain ⟨s₁, s₂, rfl, h1, h2, h3⟩ := hv
        rcases List.mem_append.mp hst with hm | hm
        · have a := h1 st hm
          have : st ∈ s₁.filter (fun x => x.part = st.part) := by simp [hm]
          rw [h2 st.part a] at this
          obtain ⟨_, b, c⟩ := fileProgram_mem _ _ _ _ st this
          exact ⟨hrows st.part a st.row b, hev st.ev (by simp [c])⟩
        · exact ih (f0 + 1) s₂ (fun e he => hev e (by simp [he])) h3 st hm
    exact key 0 files s hev hv
  rw [(execWith_row h s hs w hw o).2, openmp_proj hp files 0 s hv k hk o ho]

/-! ## in-place updates of one row, generically -/

theorem fold_set_row (n nOut : Nat) (o : Nat) (ho : o < nOut) (g : Nat → R → R) (ks : List Nat)
    (hk : ∀ k ∈ ks, k < n) (w : Array R) (hs : w.size = n * nOut) :
    let w' := ks.foldl (fun w k => w.setIfInBounds (flatIdx n o k) (g k (w.getD (flatIdx n o k) 0))) w
    w'.size = n * nOut ∧
    rowFn n w' o = ks.foldl (fun r k => upd r k (g k (r k))) (rowFn n w o) ∧
    ∀ o', o' ≠ o → rowFn n w' o' = rowFn n w o' := by
  induction ks generalizing w with
  | nil => exact ⟨hs, rfl, fun _ _ => rfl⟩
  | cons k ks ih =>
    have h1 : k < n := hk k (by simp)
    simp only [List.foldl_cons]
    have hs' : (w.setIfInBounds (flatIdx n o k) (g k (w.getD (flatIdx n o k) 0))).size = n * nOut := by
      simp [hs]
    obtain ⟨i1, i2, i3⟩ := ih (fun x hx => hk x (by simp [hx])) _ hs'
    refine ⟨i1, ?_, ?_⟩
    · rw [i2, rowFn_set_same n nOut w hs o k ho h1]
      congr 2
      simp [rowFn, h1]
    · intro o' hne
      rw [i3 o' hne, rowFn_set_other n w o o' k h1 hne]

theorem foldl_upd_nodup (g : Nat → R → R) (ks : List Nat) (hn : ks.Nodup) (r : Nat → R) (k : Nat) :
    ks.foldl (fun r k => upd r k (g k (r k))) r k = if k ∈ ks then g k (r k) else r k := by
  induction ks generalizing r with
  | nil => simp
  | cons a ks ih =>
    have hn' := List.nodup_cons.mp hn
    simp only [List.foldl_cons]
    rw [ih hn'.2]
    by_cases hka : k = a
    · subst hka
      simp [hn'.1]
    · have : ¬ a = k := fun e => hka e.symm
      by_cases hm : k ∈ ks
      · simp [hm, upd_other _ _ _ _ hka]
      · simp [hm, hka, upd_other _ _ _ _ hka]

/-! ## the Widrow–Hoff row functions (specification side) -/

/-- delta rule on one weight row with input vector `x` (first `n` components)
    and a scalar target: `w k += u(Σ_k x k · w k) · x k` -/
def whRowReal (n : Nat) (x : Nat → R) (uOf : R → R) (w : Nat → R) : Nat → R :=
  fun k => if k < n then w k + uOf (((List.range n).map (fun k => x k * w k)).sum) * x k else w k

/-- binary cues: the cue indicator with multiplicity as input vector -/
def whRowBin (uOf : R → R) (w : Nat → R) (cues : List Nat) : Nat → R :=
  fun c => w c + (cues.count c : R) * uOf ((cues.map w).sum)

theorem foldl_add_eq_sum (g : Nat → R) (ks : List Nat) (a : R) :
    ks.foldl (fun acc k => acc + g k) a = a + (ks.map g).sum := by
  induction ks generalizing a with
  | nil => simp
  | cons k ks ih => simp [ih, add_assoc]

theorem addPlain_apply (u : R) (w : Nat → R) (cs : List Nat) (c : Nat) :
    cs.foldl (fun r k => upd r k (r k + u)) w c = w c + (cs.count c : R) * u := by
  induction cs generalizing w with
  | nil => simp
  | cons d cs ih =>
    simp only [List.foldl_cons]
    rw [ih]
    by_cases h : d = c
    · subst h; simp [List.count_cons_self]; ring
    · have h' : c ≠ d := fun e => h e.symm
      simp [upd_other _ _ _ _ h', List.count_cons_of_ne h]

/-! ## the three kernels are row kernels with these row functions -/

theorem whB2R_rowstep (eta : R) (outVecs : Array R) (nOutDims nCues : Nat) :
    RowStep nCues nOutDims (fun e => ∀ c ∈ e.cues, c < nCues)
      (fun w d e => whB2RRowEvent eta outVecs nOutDims nCues w d e.cues e.outcomes)
      (fun d r e => whRowBin (fun a => eta * (summedOut outVecs nOutDims d e.outcomes - a)) r e.cues) := by
  constructor
  intro w hw d hd e hc
  unfold whB2RRowEvent
  simp only
  rw [kernel_sum nCues w d e.cues hc]
  obtain ⟨i1, i2, i3⟩ := fold_set_row nCues nOutDims d hd
    (fun _ v => v + eta * (summedOut outVecs nOutDims d e.outcomes -
      foldl (fun acc c => acc + rowFn nCues w d c) 0 e.cues)) e.cues hc w hw
  refine ⟨i1, ?_, i3⟩
  rw [i2]
  funext c
  rw [addPlain_apply, foldl_add_eq_sum]
  simp [whRowBin]

theorem realAssoc_eq (cueVecs : Array R) (n : Nat) (w : Array R) (row : Nat) (cues : List Nat) :
    realAssoc cueVecs n w row cues
      = ((List.range n).map (fun k => summedCue cueVecs n k cues * rowFn n w row k)).sum := by
  unfold realAssoc
  rw [foldl_add_eq_sum]
  simp only [zero_add]
  congr 1
  apply List.map_congr_left
  intro k hk
  simp [rowFn, List.mem_range.mp hk]

theorem realUpdate_spec (cueVecs : Array R) (n nOut : Nat) (u : R) (w : Array R) (hw : w.size = n * nOut)
    (row : Nat) (hr : row < nOut) (cues : List Nat) :
    (realUpdate cueVecs n u w row cues).size = n * nOut ∧
    rowFn n (realUpdate cueVecs n u w row cues) row
      = (fun k => if k < n then rowFn n w row k + u * summedCue cueVecs n k cues else rowFn n w row k) ∧
    ∀ o', o' ≠ row → rowFn n (realUpdate cueVecs n u w row cues) o' = rowFn n w o' := by
  unfold realUpdate
  obtain ⟨i1, i2, i3⟩ := fold_set_row n nOut row hr (fun k v => v + u * summedCue cueVecs n k cues)
    (List.range n) (fun k hk => List.mem_range.mp hk) w hw
  refine ⟨i1, ?_, i3⟩
  rw [i2]
  funext k
  have := foldl_upd_nodup (fun k v => v + u * summedCue cueVecs n k cues) (List.range n)
    List.nodup_range (rowFn n w row) k
  simp only [List.mem_range] at this
  exact this

theorem whR2R_rowstep (eta : R) (cueVecs outVecs : Array R) (nCueDims nOutDims : Nat) :
    RowStep nCueDims nOutDims (fun _ => True)
      (fun w d e => whR2RRowEvent eta cueVecs outVecs nCueDims nOutDims w d e.cues e.outcomes)
      (fun d r e => whRowReal nCueDims (fun k => summedCue cueVecs nCueDims k e.cues)
        (fun a => eta * (summedOut outVecs nOutDims d e.outcomes - a)) r) := by
  constructor
  intro w hw d hd e _
  unfold whR2RRowEvent
  simp only
  obtain ⟨i1, i2, i3⟩ := realUpdate_spec cueVecs nCueDims nOutDims
    (eta * (summedOut outVecs nOutDims d e.outcomes - realAssoc cueVecs nCueDims w d e.cues)) w hw d hd e.cues
  refine ⟨i1, ?_, i3⟩
  rw [i2, realAssoc_eq]
  rfl

theorem whR2B_rowstep (β₁ β₂ lam : R) (cueVecs : Array R) (nCueDims nOut : Nat) :
    RowStep nCueDims nOut (fun _ => True)
      (fun w ii e => whR2BRowEvent β₁ β₂ lam cueVecs nCueDims w ii e.cues e.outcomes)
      (fun ii r e => whRowReal nCueDims (fun k => summedCue cueVecs nCueDims k e.cues)
        (fun a => if ii ∈ e.outcomes then β₁ * (lam - a) else β₂ * (0 - a)) r) := by
  constructor
  intro w hw ii hi e _
  unfold whR2BRowEvent
  simp only
  have hel : isElementOf ii e.outcomes = decide (ii ∈ e.outcomes) := by
    unfold isElementOf
    induction e.outcomes with
    | nil => simp
    | cons x xs ih =>
      simp only [List.any_cons, ih, List.mem_cons, Bool.decide_or]
      congr 1
      by_cases h : x = ii
      · subst h; simp
      · have : ¬ ii = x := fun e => h e.symm
        simp [h, this]
  obtain ⟨i1, i2, i3⟩ := realUpdate_spec cueVecs nCueDims nOut
    (if isElementOf ii e.outcomes = true then β₁ * (lam - realAssoc cueVecs nCueDims w ii e.cues)
      else β₂ * (0 - realAssoc cueVecs nCueDims w ii e.cues)) w hw ii hi e.cues
  refine ⟨i1, ?_, i3⟩
  rw [i2, realAssoc_eq, hel]
  funext k
  simp only [whRowReal, decide_eq_true_eq]

end Pyndl

namespace Pyndl
open List

variable {R : Type} [CommRing R]

/-! ## the sequential reference schedule of the OpenMP entry points -/

theorem execWith_append (step : Array R → Nat → Event Nat Nat → Array R) (w : Array R) (s t : List MicroStep) :
    execWith step w (s ++ t) = execWith step (execWith step w s) t := by
  simp [execWith, List.foldl_append]

theorem fileLoop_eq_exec (step : Array R → Nat → Event Nat Nat → Array R) (part file : Nat) (rows : List Nat)
    (w : Array R) (es : List (Event Nat Nat)) :
    es.foldl (fun w e => rows.foldl (fun w o => step w o e) w) w
      = execWith step w (fileProgram part file rows es) := by
  unfold fileProgram
  induction es generalizing w with
  | nil => rfl
  | cons e es ih =>
    simp only [List.foldl_cons, List.flatMap_cons, execWith_append]
    rw [ih]
    congr 1
    simp [execWith, List.foldl_map]

theorem partsLoop_eq_exec (step : Array R → Nat → Event Nat Nat → Array R) (file : Nat)
    (es : List (Event Nat Nat)) (parts : List (List Nat)) (k : Nat) (w : Array R) :
    parts.foldl (fun w part => es.foldl (fun w e => part.foldl (fun w o => step w o e) w) w) w
      = execWith step w (seqFileFrom file es k parts) := by
  induction parts generalizing w k with
  | nil => rfl
  | cons rows rest ih =>
    simp only [List.foldl_cons, seqFileFrom, execWith_append]
    rw [ih (k + 1), fileLoop_eq_exec step k file]

theorem learnOmpWith_eq_exec (step : Array R → Nat → Event Nat Nat → Array R)
    (files : List (List (Event Nat Nat))) (rows : List Nat) (chunk : Nat) (w : Array R) :
    learnOmpWith step files rows chunk w
      = execWith step w (seqOpenmpFrom (ompParts rows chunk) 0 files) := by
  unfold learnOmpWith
  generalize (0 : Nat) = f0
  induction files generalizing w f0 with
  | nil => rfl
  | cons es rest ih =>
    simp only [List.foldl_cons, seqOpenmpFrom, execWith_append]
    rw [ih, partsLoop_eq_exec step f0 es _ 0]

/-- **what the driver computes for a Widrow–Hoff OpenMP entry point is the row
    recursion over all events**, for every chunk size ≥ 1 -/
theorem learnOmpWith_row {n nOut : Nat} {ok : Event Nat Nat → Prop}
    {step : Array R → Nat → Event Nat Nat → Array R}
    {f : Nat → (Nat → R) → Event Nat Nat → (Nat → R)} (h : RowStep n nOut ok step f)
    (files : List (List (Event Nat Nat))) (chunk : Nat) (hc : 1 ≤ chunk)
    (hev : ∀ e ∈ files.flatten, ok e) (w : Array R) (hw : w.size = n * nOut) (o : Nat) (ho : o < nOut) :
    rowFn n (learnOmpWith step files (List.range nOut) chunk w) o
      = files.flatten.foldl (f o) (rowFn n w o) := by
  rw [learnOmpWith_eq_exec]
  have hfl := ompParts_flatten (List.range nOut) chunk hc
  have hp : PartsOk (ompParts (List.range nOut) chunk) :=
    partsOk_of_nodup_flatten _ (by rw [hfl]; exact List.nodup_range)
  obtain ⟨k, hk, hok⟩ := mem_flatten_getD (parts := ompParts (List.range nOut) chunk)
    (by rw [hfl]; exact List.mem_range.mpr ho)
  refine rowkernel_openmp_independent h hp files ?_ hev w hw _ (seqOpenmp_valid _ 0 files) k hk o hok
  intro k hk o ho
  have := getD_mem_flatten hk ho
  rw [hfl] at this
  exact List.mem_range.mp this

/-! ## one-hot tables: Widrow–Hoff reproduces Rescorla–Wagner (C14) -/

theorem sum_range_ite (n c : Nat) (hc : c < n) (v : Nat → R) :
    ((List.range n).map (fun k => if k = c then v k else 0)).sum = v c := by
  induction n with
  | zero => omega
  | succ n ih =>
    rw [List.range_succ, List.map_append, List.sum_append]
    simp only [List.map_cons, List.map_nil, List.sum_cons, List.sum_nil, add_zero]
    by_cases h : c = n
    · subst h
      have : ((List.range c).map (fun k => if k = c then v k else 0)).sum = 0 := by
        apply List.sum_eq_zero
        intro x hx
        simp only [List.mem_map, List.mem_range] at hx
        obtain ⟨k, hk, rfl⟩ := hx
        have : ¬ k = c := by omega
        simp [this]
      simp [this]
    · have : ¬ n = c := fun e => h e.symm
      simp [this, ih (by omega)]

/-- Σ_{k<n} count(k, cs) · w k = Σ over the occurrences in `cs` of `w` -/
theorem sum_count_mul (n : Nat) (cs : List Nat) (hcs : ∀ c ∈ cs, c < n) (w : Nat → R) :
    ((List.range n).map (fun k => (cs.count k : R) * w k)).sum = (cs.map w).sum := by
  induction cs with
  | nil => simp
  | cons c cs ih =>
    have hc : c < n := hcs c (by simp)
    have : (fun k => ((c :: cs).count k : R) * w k)
        = fun k => (if k = c then w k else 0) + (cs.count k : R) * w k := by
      funext k
      by_cases h : k = c
      · subst h; simp [List.count_cons_self]; ring
      · have h' : ¬ c = k := fun e => h e.symm
        simp [List.count_cons_of_ne h', h]
    rw [this]
    have hsplit : ∀ (g h : Nat → R), ((List.range n).map (fun k => g k + h k)).sum
        = ((List.range n).map g).sum + ((List.range n).map h).sum := by
      intro g h
      induction (List.range n) with
      | nil => simp
      | cons a l ih2 => simp [ih2]; ring
    rw [hsplit, sum_range_ite n c hc, ih (fun x hx => hcs x (by simp [hx]))]
    simp

/-- with the cue indicator (with multiplicity) as input vector the real-cue
    delta rule is the binary (Rescorla–Wagner) row update -/
theorem whRowReal_count (n : Nat) (cs : List Nat) (hcs : ∀ c ∈ cs, c < n) (uOf : R → R) (w : Nat → R)
    (k : Nat) (hk : k < n) :
    whRowReal n (fun k => (cs.count k : R)) uOf w k = whRowBin uOf w cs k := by
  simp only [whRowReal, whRowBin, hk, if_true, sum_count_mul n cs hcs w]
  ring

/-- `whRowBin` with the Rescorla–Wagner error term IS `rwRow` with α = 1 -/
theorem whRowBin_eq_rwRow (β₁ β₂ lam : R) (w : Nat → R) (cs : List Nat) (p : Bool) :
    whRowBin (fun a => if p then β₁ * (lam - a) else β₂ * (0 - a)) w cs
      = rwRow (fun _ => (1 : R)) β₁ β₂ lam w cs p := by
  funext c
  rw [rwRow_apply]
  simp only [whRowBin, rwU, one_mul]

/-- a one-hot table: row `c` of the table is the unit vector of dimension `σ c` -/
def OneHot (tab : Array R) (nDims : Nat) (σ : Nat → Nat) (names : Nat) : Prop :=
  ∀ c, c < names → ∀ k, k < nDims → tab.getD (nDims * c + k) 0 = if k = σ c then 1 else 0

theorem summedCue_onehot (cueVecs : Array R) (nDims : Nat) (σ : Nat → Nat) (names : Nat)
    (h : OneHot cueVecs nDims σ names) (cues : List Nat) (hc : ∀ c ∈ cues, c < names) (k : Nat) (hk : k < nDims) :
    summedCue cueVecs nDims k cues = ((cues.map σ).count k : R) := by
  unfold summedCue
  rw [foldl_add_eq_sum]
  simp only [zero_add]
  induction cues with
  | nil => simp
  | cons c cs ih =>
    have hcn := hc c (by simp)
    simp only [List.map_cons, List.sum_cons, ih (fun x hx => hc x (by simp [hx])), h c hcn k hk]
    by_cases hkc : k = σ c
    · subst hkc; simp [List.count_cons_self]; ring
    · have : ¬ σ c = k := fun e => hkc e.symm
      simp [hkc, List.count_cons_of_ne this]

/-- summed one-hot outcome vectors count how often dimension `d` is named -/
theorem summedOut_onehot (outVecs : Array R) (nDims : Nat) (τ : Nat → Nat) (names : Nat)
    (h : OneHot outVecs nDims τ names) (outcomes : List Nat) (ho : ∀ o ∈ outcomes, o < names) (d : Nat)
    (hd : d < nDims) :
    summedOut outVecs nDims d outcomes = ((outcomes.map τ).count d : R) := by
  unfold summedOut
  rw [foldl_add_eq_sum]
  simp only [zero_add]
  induction outcomes with
  | nil => simp
  | cons o os ih =>
    have hon := ho o (by simp)
    simp only [List.map_cons, List.sum_cons, ih (fun x hx => ho x (by simp [hx])), h o hon d hd]
    by_cases hk : d = τ o
    · subst hk; simp [List.count_cons_self]; ring
    · have : ¬ τ o = d := fun e => hk e.symm
      simp [hk, List.count_cons_of_ne this]

theorem count_nodup_indicator (l : List Nat) (hn : l.Nodup) (d : Nat) :
    ((l.count d : Nat) : R) = if d ∈ l then 1 else 0 := by
  rw [hn.count]
  by_cases h : d ∈ l <;> simp [h]

end Pyndl
