/-
  PyndlProofs.Corpus — helper lemmas for C19 about the corpus model
  (`PyndlModel/Corpus.lean`): the path order, the insertion sort, the ordered
  `imap`, the consumer loop, `safe_write_path`.
-/
import PyndlModel.Corpus
import PyndlModel.Generated
import Std.Data.String.ToNat
import Mathlib.Data.List.Perm.Subperm
import Mathlib.Data.List.Nodup
import Mathlib.Data.List.TakeWhile
import Mathlib.Data.List.Infix

set_option linter.unusedSimpArgs false
set_option linter.unusedVariables false

namespace Pyndl
namespace Corpus
open List

/-! ## the path order is a strict total order -/

theorem lexLt_irrefl : ∀ a : Str, lexLt a a = false
  | [] => rfl
  | c :: cs => by simp [lexLt, lexLt_irrefl cs]

theorem lexLt_asymm : ∀ {a b : Str}, lexLt a b = true → lexLt b a = false
  | [], [], h => by simp [lexLt] at h
  | [], _ :: _, _ => rfl
  | _ :: _, [], h => by simp [lexLt] at h
  | a :: as, b :: bs, h => by
    simp only [lexLt] at h ⊢
    by_cases h1 : a.toNat < b.toNat
    · have : ¬ b.toNat < a.toNat := by omega
      simp [h1, this]
    · by_cases h2 : b.toNat < a.toNat
      · simp [h1, h2] at h
      · simp only [h1, h2, if_false] at h ⊢
        exact lexLt_asymm h

theorem lexLt_trans : ∀ {a b c : Str}, lexLt a b = true → lexLt b c = true → lexLt a c = true
  | [], [], _, h, _ => by simp [lexLt] at h
  | [], _ :: _, [], _, h => by simp [lexLt] at h
  | [], _ :: _, _ :: _, _, _ => rfl
  | _ :: _, [], _, h, _ => by simp [lexLt] at h
  | _ :: _, _ :: _, [], _, h => by simp [lexLt] at h
  | a :: as, b :: bs, c :: cs, h₁, h₂ => by
    simp only [lexLt] at h₁ h₂ ⊢
    by_cases ab : a.toNat < b.toNat
    · by_cases bc : b.toNat < c.toNat
      · have : a.toNat < c.toNat := by omega
        simp [this]
      · by_cases cb : c.toNat < b.toNat
        · simp [bc, cb] at h₂
        · have : a.toNat < c.toNat := by omega
          simp [this]
    · by_cases ba : b.toNat < a.toNat
      · simp [ab, ba] at h₁
      · simp only [ab, ba, if_false] at h₁
        have e : a.toNat = b.toNat := by omega
        by_cases bc : b.toNat < c.toNat
        · have : a.toNat < c.toNat := by omega
          simp [this]
        · by_cases cb : c.toNat < b.toNat
          · simp [bc, cb] at h₂
          · simp only [bc, cb, if_false] at h₂
            have h1 : ¬ a.toNat < c.toNat := by omega
            have h2 : ¬ c.toNat < a.toNat := by omega
            simp only [h1, h2, if_false]
            exact lexLt_trans h₁ h₂

/-- trichotomy: two paths neither of which is smaller are the same string -/
theorem lexLt_total : ∀ {a b : Str}, lexLt a b = false → lexLt b a = false → a = b
  | [], [], _, _ => rfl
  | [], _ :: _, h, _ => by simp [lexLt] at h
  | _ :: _, [], _, h => by simp [lexLt] at h
  | a :: as, b :: bs, h₁, h₂ => by
    simp only [lexLt] at h₁ h₂
    by_cases ab : a.toNat < b.toNat
    · simp [ab] at h₁
    · by_cases ba : b.toNat < a.toNat
      · simp [ba] at h₂
      · simp only [ab, ba, if_false] at h₁ h₂
        have e : a = b := Char.toNat_inj.mp (by omega)
        rw [e, lexLt_total h₁ h₂]

theorem lexLt_ne {a b : Str} (h : lexLt a b = true) : a ≠ b := by
  intro e; subst e; rw [lexLt_irrefl] at h; exact Bool.noConfusion h

/-- `a ≤ b ≤ c → a ≤ c` for the non-strict order `¬ (· > ·)` -/
theorem lexLe_trans {a b c : Str} (h₁ : lexLt b a = false) (h₂ : lexLt c b = false) :
    lexLt c a = false := by
  cases hca : lexLt c a with
  | false => rfl
  | true =>
    cases hab : lexLt a b with
    | true => rw [lexLt_trans hca hab] at h₂; exact Bool.noConfusion h₂
    | false =>
      have : a = b := lexLt_total hab h₁
      subst this; rw [hca] at h₂; exact Bool.noConfusion h₂

/-! ## insertion sort: permutation, sorted, unique -/

section SortSec
variable {α : Type} (key : α → Str)

theorem insertBy_perm (x : α) : ∀ l : List α, insertBy key x l ~ x :: l
  | [] => Perm.refl _
  | y :: ys => by
    simp only [insertBy]
    split
    · exact ((insertBy_perm x ys).cons y).trans (Perm.swap x y ys)
    · exact Perm.refl _

theorem sortBy_perm : ∀ l : List α, sortBy key l ~ l
  | [] => Perm.refl _
  | x :: xs => (insertBy_perm key x (sortBy key xs)).trans ((sortBy_perm xs).cons x)

/-- weakly sorted: no later element is smaller -/
def SortedLe (l : List α) : Prop := l.Pairwise (fun a b => lexLt (key b) (key a) = false)
/-- strictly sorted -/
def SortedLt (l : List α) : Prop := l.Pairwise (fun a b => lexLt (key a) (key b) = true)

theorem insertBy_sorted (x : α) : ∀ l : List α, SortedLe key l → SortedLe key (insertBy key x l)
  | [], _ => by simp [insertBy, SortedLe]
  | y :: ys, h => by
    have hy := (pairwise_cons.mp h)
    simp only [insertBy]
    by_cases c : lexLt (key y) (key x) = true
    · rw [if_pos c]
      refine pairwise_cons.mpr ⟨?_, insertBy_sorted x ys hy.2⟩
      intro z hz
      rcases mem_cons.mp ((insertBy_perm key x ys).subset hz) with rfl | hz
      · exact lexLt_asymm c
      · exact hy.1 z hz
    · rw [if_neg c]
      have c' : lexLt (key y) (key x) = false := by simpa using c
      refine pairwise_cons.mpr ⟨?_, h⟩
      intro z hz
      rcases mem_cons.mp hz with rfl | hz
      · exact c'
      · exact lexLe_trans c' (hy.1 z hz)

theorem sortBy_sortedLe : ∀ l : List α, SortedLe key (sortBy key l)
  | [] => Pairwise.nil
  | x :: xs => insertBy_sorted key x _ (sortBy_sortedLe xs)

/-- with pairwise different keys the result is strictly increasing -/
theorem sortBy_sortedLt (l : List α) (hn : (l.map key).Nodup) : SortedLt key (sortBy key l) := by
  have hn' : ((sortBy key l).map key).Nodup := ((sortBy_perm key l).map key).nodup_iff.mpr hn
  have hne : (sortBy key l).Pairwise (fun a b => key a ≠ key b) := pairwise_map.mp hn'
  refine ((sortBy_sortedLe key l).and hne).imp ?_
  intro a b ⟨h₁, h₂⟩
  cases h : lexLt (key a) (key b) with
  | true => rfl
  | false => exact absurd (lexLt_total h h₁) h₂

/-- a strictly sorted permutation of a list is unique -/
theorem sortedLt_unique {l₁ l₂ : List α} (h₁ : SortedLt key l₁) (h₂ : SortedLt key l₂) (hp : l₁ ~ l₂) :
    l₁ = l₂ :=
  Perm.eq_of_pairwise (le := fun a b => lexLt (key a) (key b) = true)
    (fun a b _ _ hab hba => by rw [lexLt_asymm hab] at hba; exact Bool.noConfusion hba) h₁ h₂ hp

/-- the sort result does not depend on the order of its input (`os.walk` order) -/
theorem sortBy_perm_invariant {l₁ l₂ : List α} (hp : l₁ ~ l₂) (hn : (l₁.map key).Nodup) :
    sortBy key l₁ = sortBy key l₂ :=
  sortedLt_unique key (sortBy_sortedLt key l₁ hn)
    (sortBy_sortedLt key l₂ ((hp.map key).nodup_iff.mp hn))
    (((sortBy_perm key l₁).trans hp).trans (sortBy_perm key l₂).symm)

end SortSec

/-! ## `gzFiles`: independent of the order in which `os.walk` lists the tree -/

theorem pyJoin_inj (d : Str) {a b : Str} (h : pyJoin d a = pyJoin d b) : a = b := by
  unfold pyJoin at h
  by_cases h1 : d = []
  · simpa [h1] using h
  · by_cases h2 : d.getLast? = some '/'
    · simp only [h1, h2, if_true, if_false] at h
      exact List.append_cancel_left h
    · simp only [h1, h2, if_false] at h
      have := List.append_cancel_left h
      exact (List.cons.inj this).2

/-- the list that is sorted -/
def gzUnsorted (directory : Str) (tree : List (Str × Entry)) : List (Str × Entry) :=
  (tree.filter (fun e => !isDir e.2 && endsWith ".gz".toList e.1)).map (fun e => (pyJoin directory e.1, e.2))

theorem gzFiles_eq (directory : Str) (tree : List (Str × Entry)) :
    gzFiles directory tree = sortBy (·.1) (gzUnsorted directory tree) := rfl

theorem gzUnsorted_nodup (directory : Str) (tree : List (Str × Entry)) (hn : (tree.map (·.1)).Nodup) :
    ((gzUnsorted directory tree).map (·.1)).Nodup := by
  unfold gzUnsorted
  rw [List.map_map]
  have h1 : ((tree.filter (fun e => !isDir e.2 && endsWith ".gz".toList e.1)).map (·.1)).Nodup :=
    hn.sublist ((filter_sublist).map _)
  have h2 := h1.map (f := pyJoin directory) (fun a b h => pyJoin_inj directory h)
  rw [List.map_map] at h2
  exact h2

theorem gzFiles_perm (directory : Str) {t₁ t₂ : List (Str × Entry)} (hp : t₁ ~ t₂)
    (hn : (t₁.map (·.1)).Nodup) : gzFiles directory t₁ = gzFiles directory t₂ := by
  rw [gzFiles_eq, gzFiles_eq]
  exact sortBy_perm_invariant _ ((hp.filter _).map _) (gzUnsorted_nodup directory t₁ hn)

theorem gzFiles_nodup (directory : Str) (tree : List (Str × Entry)) (hn : (tree.map (·.1)).Nodup) :
    ((gzFiles directory tree).map (·.1)).Nodup :=
  ((sortBy_perm _ _).map _).nodup_iff.mpr (gzUnsorted_nodup directory tree hn)

/-! ## `imap`: results in submission order for every arrival order -/

theorem lookup_of_mem {β : Type} : ∀ (l : List (Nat × β)) (k : Nat) (v : β),
    (l.map Prod.fst).Nodup → (k, v) ∈ l → l.lookup k = some v
  | [], _, _, _, h => by simp at h
  | (k', v') :: l, k, v, hn, h => by
    simp only [map_cons, nodup_cons] at hn
    rcases mem_cons.mp h with e | h
    · cases e; simp [List.lookup_cons]
    · have hne : k ≠ k' := fun e => hn.1 (e ▸ mem_map.mpr ⟨(k, v), h, rfl⟩)
      have : (k == k') = false := by simpa using hne
      rw [List.lookup_cons, this]
      exact lookup_of_mem l k v hn.2 h

theorem filterMap_range'_eq {β : Type} : ∀ (l : List β) (g : Nat → Option β) (s : Nat),
    (∀ i (h : i < l.length), g (s + i) = some l[i]) → (range' s l.length).filterMap g = l
  | [], _, _, _ => rfl
  | a :: l, g, s, h => by
    have h0 : g s = some a := by
      have := h 0 (by simp)
      rw [Nat.add_zero] at this
      exact this
    have ih := filterMap_range'_eq l g (s + 1) (fun i hi => by
      have := h (i + 1) (by simpa using hi)
      simpa [Nat.add_assoc, Nat.add_comm 1 i] using this)
    simp only [length_cons, range'_succ, filterMap_cons, h0, ih]

/-- **any arrival order**: whatever permutation of the indexed results reaches the
    result handler, the iterator hands them out in submission order. -/
theorem collect_eq_map {α β : Type} (f : α → β) (xs : List α) (arr : List (Nat × β))
    (h : arr ~ xs.zipIdx.map (fun p => (p.2, f p.1))) : collect xs.length arr = xs.map f := by
  have hkeys : (arr.map Prod.fst).Nodup := by
    refine (h.map Prod.fst).nodup_iff.mpr ?_
    rw [List.map_map]
    have : (Prod.fst ∘ fun p : α × Nat => (p.2, f p.1)) = Prod.snd := rfl
    rw [this, zipIdx_map_snd]
    exact nodup_range' (step := 1) (by omega)
  unfold collect
  rw [range_eq_range']
  have hl : xs.length = (xs.map f).length := by simp
  rw [hl]
  apply filterMap_range'_eq
  intro i hi
  have hi' : i < xs.length := by simpa using hi
  rw [Nat.zero_add]
  apply lookup_of_mem _ _ _ hkeys
  apply h.symm.subset
  refine mem_map.mpr ⟨(xs[i], i), ?_, by simp⟩
  exact mk_mem_zipIdx_iff_getElem?.mpr (by simp [hi'])

theorem flatMap_insert_perm {ι γ : Type} [DecidableEq ι] (a : γ) (F : ι → List γ) (r : ι) :
    ∀ ws : List ι, ws.Nodup → r ∈ ws →
      ws.flatMap (fun w => if r = w then a :: F w else F w) ~ a :: ws.flatMap F
  | [], _, h => by simp at h
  | w :: ws, hn, hr => by
    have hn' := nodup_cons.mp hn
    simp only [flatMap_cons]
    by_cases e : r = w
    · subst e
      have : ws.flatMap (fun w => if r = w then a :: F w else F w) = ws.flatMap F := by
        apply flatMap_congr
        intro w hw
        have : r ≠ w := fun e => hn'.1 (e ▸ hw)
        simp [this]
      simp [this]
    · have hr' : r ∈ ws := by
        rcases mem_cons.mp hr with h | h
        · exact absurd h e
        · exact h
      simp only [e, if_false]
      exact ((flatMap_insert_perm a F r ws hn'.2 hr').append_left (F w)).trans perm_middle

theorem classes_perm {γ : Type} (n : Nat) (cls : γ → Nat) (hc : ∀ a, cls a < n) :
    ∀ L : List γ, (range n).flatMap (fun w => L.filter (fun a => cls a = w)) ~ L
  | [] => by simp
  | a :: L => by
    have ih := classes_perm n cls hc L
    have : (fun w => (a :: L).filter (fun a => cls a = w))
        = (fun w => if cls a = w then a :: L.filter (fun a => cls a = w) else L.filter (fun a => cls a = w)) := by
      funext w
      by_cases e : cls a = w <;> simp [filter_cons, e]
    rw [this]
    exact (flatMap_insert_perm a _ (cls a) (range n) nodup_range (mem_range.mpr (hc a))).trans (ih.cons a)

theorem arrivals_perm {α β : Type} (n : Nat) (hn : 0 < n) (f : α → β) (xs : List α) :
    arrivals n f xs ~ xs.zipIdx.map (fun p => (p.2, f p.1)) := by
  unfold arrivals
  have h := classes_perm n (fun p : α × Nat => p.2 % n) (fun p => Nat.mod_lt _ hn) xs.zipIdx
  have h2 := h.map (fun p : α × Nat => (p.2, f p.1))
  rw [List.map_flatMap] at h2
  exact h2

/-- `Pool(n).imap(f, xs)` is `map f xs` for every `n ≥ 1` -/
theorem imap_eq_map {α β : Type} (n : Nat) (hn : 0 < n) (f : α → β) (xs : List α) :
    imap n f xs = xs.map f :=
  collect_eq_map f xs _ (arrivals_perm n hn f xs)

/-! ## the consumer loop -/

def pieces : JobResult → List Str
  | .lines ls => ls
  | .notFound _ => []

def nfLines : JobResult → List Str
  | .lines _ => []
  | .notFound l => [l]

theorem consume_ok : ∀ js : List JobResult,
    consume (js.map Except.ok) = (js.flatMap pieces, js.flatMap nfLines, none)
  | [] => rfl
  | .lines ls :: js => by simp [consume, consume_ok js, pieces, nfLines]
  | .notFound l :: js => by simp [consume, consume_ok js, pieces, nfLines]

/-- an exception ends the loop: what was written before stays, nothing after -/
theorem consume_error : ∀ (js : List JobResult) (e : Err) (rest : List (Except Err JobResult)),
    consume (js.map Except.ok ++ Except.error e :: rest) = (js.flatMap pieces, js.flatMap nfLines, some e)
  | [], _, _ => rfl
  | .lines ls :: js, e, rest => by simp [consume, consume_error js e rest, pieces, nfLines]
  | .notFound l :: js, e, rest => by simp [consume, consume_error js e rest, pieces, nfLines]

/-! ## `safe_write_path` returns a path that does not exist -/

theorem natStr_inj {a b : Nat} (h : natStr a = natStr b) : a = b := by
  unfold natStr at h
  exact Nat.repr_injective (String.toList_inj.mp h)

theorem candidate_inj (path : Str) {a b : Nat} (h : candidate path a = candidate path b) : a = b := by
  unfold candidate at h
  by_cases ha : a = 0 <;> by_cases hb : b = 0
  · omega
  · simp only [ha, hb, if_true, if_false] at h
    have := congrArg List.length h
    simp at this
  · simp only [ha, hb, if_true, if_false] at h
    have := congrArg List.length h
    simp at this
  · simp only [ha, hb, if_false] at h
    exact natStr_inj (List.cons.inj (List.append_cancel_left h)).2

theorem find_range_first (p : Nat → Bool) : ∀ n k, (range n).find? p = some k → ∀ j < k, p j = false
  | 0, k, h, _, _ => by simp at h
  | n + 1, k, h, j, hj => by
    rw [range_succ, find?_append] at h
    cases hn : (range n).find? p with
    | some k' =>
      rw [hn] at h
      have : k' = k := by simpa using h
      subst this
      exact find_range_first p n k' hn j hj
    | none =>
      rw [hn] at h
      have hk : k = n := by
        have h' : find? p [n] = some k := by simpa using h
        exact (mem_singleton.mp (mem_of_find?_eq_some h'))
      have := find?_eq_none.mp hn j (mem_range.mpr (hk ▸ hj))
      simpa using this

theorem safeWritePath_spec (existing : List Str) (path : Str) :
    ∃ k, safeWritePath existing path = candidate path k ∧ candidate path k ∉ existing ∧
      ∀ j < k, candidate path j ∈ existing := by
  unfold safeWritePath
  cases hf : (range (existing.length + 1)).find? (fun k => !existing.contains (candidate path k)) with
  | some k =>
    refine ⟨k, rfl, ?_, ?_⟩
    · have := find?_some hf
      simpa using this
    · intro j hj
      have := find_range_first _ _ _ hf j hj
      simpa using this
  | none =>
    exfalso
    have hall := find?_eq_none.mp hf
    have hsub : (range (existing.length + 1)).map (candidate path) ⊆ existing := by
      intro c hc
      obtain ⟨k, hk, rfl⟩ := mem_map.mp hc
      have := hall k hk
      simpa using this
    have hnd : ((range (existing.length + 1)).map (candidate path)).Nodup :=
      nodup_range.map (fun a b h => candidate_inj path h)
    have := (hnd.subperm hsub).length_le
    simp at this
    omega

theorem safeWritePath_fresh (existing : List Str) (path : Str) : safeWritePath existing path ∉ existing := by
  obtain ⟨k, hk, hfree, _⟩ := safeWritePath_spec existing path
  rw [hk]; exact hfree

theorem safeWritePath_length (existing : List Str) (path : Str) :
    path.length ≤ (safeWritePath existing path).length := by
  obtain ⟨k, hk, _, _⟩ := safeWritePath_spec existing path
  rw [hk]; unfold candidate; split <;> simp

/-! ## `create_corpus_from_gz` -/

/-- the lines one entry contributes to the corpus: the cleaned sentences and the
    end-of-document marker for a readable document, nothing otherwise -/
def docPieces {τ : Type} (cfg : Cfg τ) : Entry → List Str
  | .doc d =>
    match readClean cfg d with
    | .ok ls => ls ++ [cfg.marker]
    | .error _ => []
  | _ => []

def isDangling : Entry → Bool
  | .dangling => true
  | _ => false

/-- a path the run can deal with: a document that parses, or a missing file -/
def readable {τ : Type} (cfg : Cfg τ) : Entry → Bool
  | .dangling => true
  | .doc d =>
    match readClean cfg d with
    | .ok _ => true
    | .error _ => false
  | _ => false

/-- the line one entry contributes to the `.not_found` file -/
def nfLine (p : Str × Entry) : List Str := if isDangling p.2 then [p.1 ++ ['\n']] else []

def jobD {τ : Type} (cfg : Cfg τ) (p : Str × Entry) : JobResult :=
  match runJob cfg p.1 p.2 with
  | .ok j => j
  | .error _ => .lines []

theorem runJob_readable {τ : Type} (cfg : Cfg τ) (p : Str × Entry) (h : readable cfg p.2 = true) :
    runJob cfg p.1 p.2 = .ok (jobD cfg p) ∧ pieces (jobD cfg p) = docPieces cfg p.2 ∧
      nfLines (jobD cfg p) = nfLine p := by
  obtain ⟨path, e⟩ := p
  cases e with
  | dangling => simp [runJob, jobD, pieces, nfLines, docPieces, nfLine, isDangling]
  | doc d =>
    simp only [readable] at h
    cases hr : readClean cfg d with
    | ok ls => simp [runJob, jobD, hr, pieces, nfLines, docPieces, nfLine, isDangling]
    | error e => rw [hr] at h; exact Bool.noConfusion h
  | notGzip => exact Bool.noConfusion h
  | dir => exact Bool.noConfusion h

theorem runJob_unreadable {τ : Type} (cfg : Cfg τ) (p : Str × Entry) (h : readable cfg p.2 = false) :
    ∃ e, runJob cfg p.1 p.2 = .error e := by
  obtain ⟨path, e⟩ := p
  cases e with
  | dangling => exact Bool.noConfusion h
  | doc d =>
    simp only [readable] at h
    cases hr : readClean cfg d with
    | ok ls => rw [hr] at h; exact Bool.noConfusion h
    | error e => exact ⟨e, by simp [runJob, hr]⟩
  | notGzip => exact ⟨.io, rfl⟩
  | dir => exact ⟨.io, rfl⟩

/-- the outcome of a run that gets past the guards, in closed form -/
def okOutcome {τ : Type} (cfg : Cfg τ) (outfile : Str) (w : World) (gz : List (Str × Entry)) : Outcome :=
  ⟨none, some (gz.flatMap (fun p => docPieces cfg p.2)),
    if gz.flatMap nfLine = [] then none
    else some (safeWritePath w.files (outfile ++ notFoundSuffix), gz.flatMap nfLine)⟩

theorem createCorpus_guards {τ : Type} (cfg : Cfg τ) (n : Nat) (directory outfile : Str) (w : World)
    (tree : List (Str × Entry)) (hd : w.dirExists = true) (ho : outfile ∉ w.files) (hn : 0 < n) :
    createCorpus cfg n directory outfile w tree =
      match consume ((gzFiles directory tree).map (fun p => runJob cfg p.1 p.2)) with
      | (written, _, some e) => ⟨some e, some written, none⟩
      | (written, nf, none) =>
        ⟨none, some written,
          if nf = [] then none
          else some (safeWritePath w.files (outfile ++ notFoundSuffix), nf)⟩ := by
  unfold createCorpus
  have h1 : (!w.dirExists) = false := by simp [hd]
  have h2 : w.files.contains outfile = false := by simpa using ho
  have h3 : ¬ n = 0 := by omega
  simp only [h1, h2, h3, if_false, imap_eq_map n hn, Bool.false_eq_true]
  rfl

theorem createCorpus_ok {τ : Type} (cfg : Cfg τ) (n : Nat) (directory outfile : Str) (w : World)
    (tree : List (Str × Entry)) (hd : w.dirExists = true) (ho : outfile ∉ w.files) (hn : 0 < n)
    (hr : ∀ p ∈ gzFiles directory tree, readable cfg p.2 = true) :
    createCorpus cfg n directory outfile w tree = okOutcome cfg outfile w (gzFiles directory tree) := by
  rw [createCorpus_guards cfg n directory outfile w tree hd ho hn]
  have hmap : (gzFiles directory tree).map (fun p => runJob cfg p.1 p.2)
      = ((gzFiles directory tree).map (jobD cfg)).map Except.ok := by
    rw [List.map_map]
    apply map_congr_left
    intro p hp
    exact (runJob_readable cfg p (hr p hp)).1
  have hp : ((gzFiles directory tree).map (jobD cfg)).flatMap pieces
      = (gzFiles directory tree).flatMap (fun p => docPieces cfg p.2) := by
    rw [List.flatMap_map]
    apply flatMap_congr
    intro p hp
    exact (runJob_readable cfg p (hr p hp)).2.1
  have hnf : ((gzFiles directory tree).map (jobD cfg)).flatMap nfLines
      = (gzFiles directory tree).flatMap nfLine := by
    rw [List.flatMap_map]
    apply flatMap_congr
    intro p hp
    exact (runJob_readable cfg p (hr p hp)).2.2
  rw [hmap, consume_ok, hp, hnf]
  rfl

/-- first unreadable file: the exception propagates, the corpus holds exactly
    the documents before it (in sorted order), no `.not_found` file is written -/
theorem createCorpus_error {τ : Type} (cfg : Cfg τ) (n : Nat) (directory outfile : Str) (w : World)
    (tree : List (Str × Entry)) (hd : w.dirExists = true) (ho : outfile ∉ w.files) (hn : 0 < n)
    (pre post : List (Str × Entry)) (p : Str × Entry) (hs : gzFiles directory tree = pre ++ p :: post)
    (hr : ∀ q ∈ pre, readable cfg q.2 = true) (hp : readable cfg p.2 = false) :
    ∃ e, createCorpus cfg n directory outfile w tree
      = ⟨some e, some (pre.flatMap (fun q => docPieces cfg q.2)), none⟩ := by
  obtain ⟨e, he⟩ := runJob_unreadable cfg p hp
  refine ⟨e, ?_⟩
  rw [createCorpus_guards cfg n directory outfile w tree hd ho hn, hs]
  have hmap : (pre ++ p :: post).map (fun p => runJob cfg p.1 p.2)
      = (pre.map (jobD cfg)).map Except.ok ++ Except.error e :: post.map (fun p => runJob cfg p.1 p.2) := by
    rw [List.map_append, List.map_cons, he, List.map_map]
    congr 1
    apply map_congr_left
    intro q hq
    exact (runJob_readable cfg q (hr q hq)).1
  have hpc : (pre.map (jobD cfg)).flatMap pieces = pre.flatMap (fun q => docPieces cfg q.2) := by
    rw [List.flatMap_map]
    apply flatMap_congr
    intro q hq
    exact (runJob_readable cfg q (hr q hq)).2.1
  rw [hmap, consume_error, hpc]

theorem flatMap_nfLine_eq (gz : List (Str × Entry)) :
    gz.flatMap nfLine = (gz.filter (fun p => isDangling p.2)).map (fun p => p.1 ++ ['\n']) := by
  induction gz with
  | nil => rfl
  | cons p gz ih =>
    by_cases h : isDangling p.2 = true
    · simp [flatMap_cons, nfLine, h, filter_cons, ← ih]
    · simp [flatMap_cons, nfLine, h, filter_cons, ← ih]

theorem docPieces_dangling {τ : Type} (cfg : Cfg τ) {e : Entry} (h : isDangling e = true) : docPieces cfg e = [] := by
  cases e <;> first | rfl | exact Bool.noConfusion h

theorem flatMap_docPieces_filter {τ : Type} (cfg : Cfg τ) (gz : List (Str × Entry)) :
    gz.flatMap (fun p => docPieces cfg p.2)
      = (gz.filter (fun p => !isDangling p.2)).flatMap (fun p => docPieces cfg p.2) := by
  induction gz with
  | nil => rfl
  | cons p gz ih =>
    by_cases h : isDangling p.2 = true
    · simp only [flatMap_cons, filter_cons, h, Bool.not_true, Bool.false_eq_true, if_false,
        docPieces_dangling cfg h, List.nil_append, ih]
    · have h' : isDangling p.2 = false := by simpa using h
      simp only [flatMap_cons, filter_cons, h', Bool.not_false, if_true, ih]


/-! ## the cleaning specification (corpus.py:63-103)

What the output line of an `<s>` element is as a function of its words and time
tags, stated without the recursion of the model. -/

/-- what one `<w>` text contributes: itself if it is a punctuation mark (so it
    attaches to what precedes it), otherwise a blank and the text -/
def token (t : Str) : Str := if isPunct t then t else ' ' :: t

theorem joinWords_some (ts : List Str) : joinWords (ts.map some) = .ok (ts.flatMap token) := by
  induction ts with
  | nil => rfl
  | cons t ts ih => simp only [List.map_cons, joinWords, ih, token, List.flatMap_cons]

theorem joinWords_error (ws : List (Option Str)) (h : none ∈ ws) : joinWords ws = .error .value := by
  induction ws with
  | nil => simp at h
  | cons w ws ih =>
    cases w with
    | none => rfl
    | some t =>
      have : none ∈ ws := by simpa using h
      simp only [joinWords, ih this]

/-- a list of optional texts is either all texts or contains an empty `<w>` -/
theorem all_some_or_none (ws : List (Option Str)) : (∃ ts : List Str, ws = ts.map some) ∨ none ∈ ws := by
  induction ws with
  | nil => exact Or.inl ⟨[], rfl⟩
  | cons w ws ih =>
    cases w with
    | none => exact Or.inr (by simp)
    | some t =>
      rcases ih with ⟨ts, rfl⟩ | h
      · exact Or.inl ⟨t :: ts, rfl⟩
      · exact Or.inr (by simp [h])

/-! ### `str.strip()` -/

theorem strip_decomp (s : Str) :
    ∃ pre post, s = pre ++ strip s ++ post ∧ (∀ c ∈ pre, isPySpace c = true) ∧
      (∀ c ∈ post, isPySpace c = true) := by
  refine ⟨s.takeWhile isPySpace, (((s.dropWhile isPySpace).reverse).takeWhile isPySpace).reverse, ?_, ?_, ?_⟩
  · unfold strip
    rw [List.append_assoc, ← List.reverse_append, List.takeWhile_append_dropWhile, List.reverse_reverse,
      List.takeWhile_append_dropWhile]
  · intro c hc; exact List.mem_takeWhile_imp hc
  · intro c hc; exact List.mem_takeWhile_imp (List.mem_reverse.mp hc)

/-- **strip, characterised**: whenever a string is blanks, then a middle part
    that neither starts nor ends with a blank, then blanks, `strip` returns the
    middle part (and by `strip_decomp` every string is of that form). -/
theorem strip_eq_middle (pre m post : Str) (hpre : ∀ c ∈ pre, isPySpace c = true)
    (hpost : ∀ c ∈ post, isPySpace c = true)
    (hh : ∀ c, m.head? = some c → isPySpace c = false)
    (hl : ∀ c, m.getLast? = some c → isPySpace c = false) :
    strip (pre ++ m ++ post) = m := by
  unfold strip
  rw [List.append_assoc, List.dropWhile_append_of_pos hpre]
  cases m with
  | nil =>
    have : List.dropWhile isPySpace ([] ++ post) = [] := by
      rw [List.nil_append, List.dropWhile_eq_nil_iff]; exact hpost
    rw [this]; rfl
  | cons c m' =>
    have hc : isPySpace c = false := hh c rfl
    have h1 : List.dropWhile isPySpace (c :: m' ++ post) = c :: m' ++ post := by
      simp [List.dropWhile_cons, hc]
    rw [h1, List.reverse_append,
      List.dropWhile_append_of_pos (fun x hx => hpost x (List.mem_reverse.mp hx))]
    obtain ⟨x, xs, hx⟩ : ∃ x xs, (c :: m').reverse = x :: xs := by
      cases h : (c :: m').reverse with
      | nil => simp at h
      | cons x xs => exact ⟨x, xs, rfl⟩
    have hxl : (c :: m').getLast? = some x := by
      rw [List.getLast?_eq_head?_reverse, hx]; rfl
    have : isPySpace x = false := hl x hxl
    rw [hx]
    simp only [List.dropWhile_cons, this, Bool.false_eq_true, if_false]
    rw [← hx, List.reverse_reverse]

/-- the result of `strip` neither starts nor ends with a blank -/
theorem strip_ends (s : Str) :
    (∀ c, (strip s).head? = some c → isPySpace c = false) ∧
    (∀ c, (strip s).getLast? = some c → isPySpace c = false) := by
  unfold strip
  constructor
  · intro c hc
    -- the result is a prefix of `dropWhile isPySpace s`, whose head is not a blank
    have hpre : ((s.dropWhile isPySpace).reverse.dropWhile isPySpace).reverse <+: s.dropWhile isPySpace := by
      have : ((s.dropWhile isPySpace).reverse.dropWhile isPySpace) <:+ (s.dropWhile isPySpace).reverse :=
        List.dropWhile_suffix _
      simpa using List.reverse_prefix.mpr this
    obtain ⟨t, ht⟩ := hpre
    cases hr : ((s.dropWhile isPySpace).reverse.dropWhile isPySpace).reverse with
    | nil => rw [hr] at hc; simp at hc
    | cons x xs =>
      rw [hr] at hc ht
      have hx : x = c := by simpa using hc
      subst hx
      have hhead : (s.dropWhile isPySpace).head? = some x := by rw [← ht]; rfl
      have := List.head?_dropWhile_not isPySpace s
      rw [hhead] at this
      simpa using this
  · intro c hc
    rw [List.getLast?_reverse] at hc
    have := List.head?_dropWhile_not isPySpace (s.dropWhile isPySpace).reverse
    rw [hc] at this
    simpa using this


/-! ### the time tags of one sentence -/

section CleanSpec
variable {τ : Type}

theorem parseTime_error_value {A : Arith τ} {v : Str} {e : Err} (h : parseTime A v = .error e) :
    e = .value := by
  unfold parseTime at h
  split at h
  · split at h
    · cases h
    · cases h; rfl
  · cases h; rfl

theorem isS_not_isE {t : TimeTag} (h : isS t = true) : isE t = false := by
  unfold isS at h; unfold isE
  have h' : t.id.getLast? = some 'S' := by simpa using h
  rw [h']; decide

/-- a tag the loop accepts: its value parses and its id ends in `S` or `E` -/
def tagOk (cfg : Cfg τ) (t : TimeTag) : Bool :=
  (parseTime cfg.arith t.value).toBool && (isS t || isE t)

/-- `last_time` after a tag -/
def stepLast (cfg : Cfg τ) (last : τ) (t : TimeTag) : τ :=
  if isE t then (match parseTime cfg.arith t.value with | .ok x => x | .error _ => last) else last

/-- **`last_time` after the tags `tags`** (it was `last` before): the time of
    the last `E` tag among them, `last` if there is none. -/
def lastE (cfg : Cfg τ) (last : τ) (tags : List TimeTag) : τ :=
  match (tags.filter isE).getLast? with
  | none => last
  | some t => stepLast cfg last t

/-- the tag `t`, met while `last_time = l`, starts a new paragraph: it is an
    `S` tag and `time t - l > break_duration` -/
def breaksAt (cfg : Cfg τ) (l : τ) (t : TimeTag) : Bool :=
  isS t && (match parseTime cfg.arith t.value with
    | .ok cur => cfg.arith.exceeds cur l
    | .error _ => false)

/-- **number of paragraph breaks of a sentence**: the tags `t` (with the tags
    `pre` before it in the sentence) that start a new paragraph given the
    `last_time` the tags before it leave -/
def breakCount (cfg : Cfg τ) (last : τ) (tags : List TimeTag) : Nat :=
  (tags.inits.zip tags).countP (fun p => breaksAt cfg (lastE cfg last p.1) p.2)

theorem lastE_nil (cfg : Cfg τ) (last : τ) : lastE cfg last [] = last := rfl

theorem stepLast_of_isE {cfg : Cfg τ} {t : TimeTag} (h : isE t = true) (l l' : τ)
    (hp : (parseTime cfg.arith t.value).toBool = true) : stepLast cfg l t = stepLast cfg l' t := by
  unfold stepLast
  rw [if_pos h, if_pos h]
  cases hq : parseTime cfg.arith t.value with
  | ok x => rfl
  | error e => rw [hq] at hp; cases hp

theorem lastE_cons (cfg : Cfg τ) (last : τ) (t : TimeTag) (ts : List TimeTag)
    (hok : ∀ u ∈ t :: ts, isE u = true → (parseTime cfg.arith u.value).toBool = true) :
    lastE cfg last (t :: ts) = lastE cfg (stepLast cfg last t) ts := by
  unfold lastE
  by_cases ht : isE t = true
  · rw [List.filter_cons_of_pos ht]
    cases hf : (ts.filter isE).getLast? with
    | none =>
      have : ts.filter isE = [] := List.getLast?_eq_none_iff.mp hf
      rw [this]; rfl
    | some u =>
      have hu : u ∈ ts.filter isE := List.mem_of_getLast? hf
      have : (t :: ts.filter isE).getLast? = some u := by
        rw [List.getLast?_cons, hf]; rfl
      rw [this]
      exact stepLast_of_isE (List.mem_filter.mp hu).2 _ _
        (hok u (List.mem_cons_of_mem _ (List.mem_filter.mp hu).1) (List.mem_filter.mp hu).2)
  · have ht' : isE t = false := by simpa using ht
    rw [List.filter_cons_of_neg ht]
    have : stepLast cfg last t = last := by unfold stepLast; rw [if_neg ht]
    rw [this]

theorem lastE_append (cfg : Cfg τ) (last : τ) (a b : List TimeTag)
    (hok : ∀ u ∈ a ++ b, isE u = true → (parseTime cfg.arith u.value).toBool = true) :
    lastE cfg last (a ++ b) = lastE cfg (lastE cfg last a) b := by
  induction a generalizing last with
  | nil => rfl
  | cons t ts ih =>
    rw [List.cons_append, lastE_cons cfg last t (ts ++ b) hok,
      lastE_cons cfg last t ts (fun u hu => hok u (by
        rcases List.mem_cons.mp hu with h | h
        · exact h ▸ List.mem_cons_self
        · exact List.mem_cons_of_mem _ (List.mem_append_left _ h))),
      ih _ (fun u hu => hok u (List.mem_cons_of_mem _ hu))]

theorem breakCount_cons (cfg : Cfg τ) (last : τ) (t : TimeTag) (ts : List TimeTag)
    (hok : ∀ u ∈ t :: ts, isE u = true → (parseTime cfg.arith u.value).toBool = true) :
    breakCount cfg last (t :: ts)
      = (if breaksAt cfg last t then 1 else 0) + breakCount cfg (stepLast cfg last t) ts := by
  unfold breakCount
  rw [List.inits_cons, List.zip_cons_cons, List.countP_cons, List.zip_map_left, List.countP_map,
    lastE_nil, Nat.add_comm]
  congr 1
  apply List.countP_congr
  intro p hp
  have hsub : p.1 <+: ts := by
    have : p.1 ∈ ts.inits := (List.of_mem_zip hp).1
    exact (List.mem_inits _ _).mp this
  simp only [Function.comp, Prod.map, id]
  rw [lastE_cons cfg last t p.1 (fun u hu => hok u (by
    rcases List.mem_cons.mp hu with h | h
    · exact h ▸ List.mem_cons_self
    · exact List.mem_cons_of_mem _ (hsub.subset h)))]

theorem timeStep_ok (cfg : Cfg τ) (r : Str) (last : τ) (t : TimeTag) (h : tagOk cfg t = true) :
    timeStep cfg (r, last) t
      = .ok ((if breaksAt cfg last t then '\n' :: r else r), stepLast cfg last t) := by
  unfold tagOk at h
  have hp := (Bool.and_eq_true _ _).mp h
  unfold timeStep breaksAt stepLast
  cases hq : parseTime cfg.arith t.value with
  | error e => rw [hq] at hp; exact absurd hp.1 (by simp [Except.toBool])
  | ok cur =>
    simp only
    by_cases hS : isS t = true
    · have hE := isS_not_isE hS
      by_cases hx : cfg.arith.exceeds cur last = true
      · simp [hS, hE, hx]
      · simp [hS, hE, hx]
    · have hE : isE t = true := by
        rcases (Bool.or_eq_true _ _).mp hp.2 with h | h
        · exact absurd h hS
        · exact h
      simp [hS, hE]

theorem timeStep_bad (cfg : Cfg τ) (st : Str × τ) (t : TimeTag) (h : tagOk cfg t = false) :
    timeStep cfg st t = .error .value := by
  unfold timeStep
  cases hq : parseTime cfg.arith t.value with
  | error e => simp only; rw [parseTime_error_value hq]
  | ok cur =>
    unfold tagOk at h
    rw [hq] at h
    have h' : (isS t || isE t) = false := by simpa [Except.toBool] using h
    have hS : isS t = false := by
      cases hs : isS t with
      | false => rfl
      | true => rw [hs] at h'; simp at h'
    have hE : isE t = false := by
      cases he : isE t with
      | false => rfl
      | true => rw [he] at h'; simp at h'
    simp [hS, hE]

theorem replicate_newline_shift (k : Nat) (r : Str) :
    List.replicate k '\n' ++ '\n' :: r = List.replicate (1 + k) '\n' ++ r := by
  rw [Nat.add_comm, List.replicate_succ', List.append_assoc]; rfl

/-- **the time tags of a sentence, specified.** When every tag is acceptable the
    loop prepends one `'\n'` per paragraph break and leaves `last_time` at the
    time of the last `E` tag. -/
theorem timeSteps_spec (cfg : Cfg τ) : ∀ (tags : List TimeTag) (r : Str) (last : τ),
    (∀ t ∈ tags, tagOk cfg t = true) →
    timeSteps cfg (r, last) tags
      = .ok (List.replicate (breakCount cfg last tags) '\n' ++ r, lastE cfg last tags)
  | [], r, last, _ => by simp [timeSteps, breakCount, lastE_nil]
  | t :: ts, r, last, h => by
    have hok : ∀ u ∈ t :: ts, isE u = true → (parseTime cfg.arith u.value).toBool = true := by
      intro u hu _
      have := h u hu
      unfold tagOk at this
      exact ((Bool.and_eq_true _ _).mp this).1
    rw [timeSteps, timeStep_ok cfg r last t (h t List.mem_cons_self)]
    simp only
    rw [timeSteps_spec cfg ts _ _ (fun u hu => h u (List.mem_cons_of_mem _ hu)),
      lastE_cons cfg last t ts hok, breakCount_cons cfg last t ts hok]
    by_cases hb : breaksAt cfg last t = true
    · simp only [hb, if_true]
      rw [replicate_newline_shift]
    · simp only [hb, if_false, Bool.false_eq_true, Nat.zero_add]

/-- the first unacceptable tag of a sentence that is not skipped: `ValueError` -/
theorem timeSteps_error (cfg : Cfg τ) : ∀ (pre : List TimeTag) (t : TimeTag) (post : List TimeTag)
    (st : Str × τ), (∀ u ∈ pre, tagOk cfg u = true) → tagOk cfg t = false →
    timeSteps cfg st (pre ++ t :: post) = .error .value
  | [], t, post, st, _, hb => by simp [timeSteps, timeStep_bad cfg st t hb]
  | u :: pre, t, post, (r, last), h, hb => by
    rw [List.cons_append, timeSteps, timeStep_ok cfg r last u (h u List.mem_cons_self)]
    exact timeSteps_error cfg pre t post _ (fun v hv => h v (List.mem_cons_of_mem _ hv)) hb

/-! ### one `<s>` element -/

/-- **an empty sentence is skipped**: nothing is yielded, `last_time` stays and
    the time tags are not looked at (not even malformed ones). -/
theorem sentence_empty (cfg : Cfg τ) (last : τ) (s : Sentence) (ts : List Str)
    (hw : s.words = ts.map some) (he : strip (ts.flatMap token) = []) :
    sentenceLine cfg last s = .ok (none, last) := by
  unfold sentenceLine
  rw [hw, joinWords_some]
  simp [he]

/-- **the line of a sentence.** Words `ts`, all present, whose joined text is
    not blank, and acceptable time tags: the line is one `'\n'` per paragraph
    break, then the tokens joined (punctuation without, every other word with
    a blank before it) and stripped, then `'\n'`; `last_time` becomes the time
    of the last `E` tag. -/
theorem sentence_line (cfg : Cfg τ) (last : τ) (s : Sentence) (ts : List Str)
    (hw : s.words = ts.map some) (hne : strip (ts.flatMap token) ≠ [])
    (ht : ∀ t ∈ s.times, tagOk cfg t = true) :
    sentenceLine cfg last s
      = .ok (some (List.replicate (breakCount cfg last s.times) '\n' ++ strip (ts.flatMap token) ++ ['\n']),
             lastE cfg last s.times) := by
  unfold sentenceLine
  rw [hw, joinWords_some]
  simp only [hne, if_false]
  rw [timeSteps_spec cfg s.times _ last ht]

/-- a `<w>` without text: `ValueError` -/
theorem sentence_word_error (cfg : Cfg τ) (last : τ) (s : Sentence) (h : none ∈ s.words) :
    sentenceLine cfg last s = .error .value := by
  unfold sentenceLine
  rw [joinWords_error s.words h]

/-- an unacceptable time tag in a sentence that is not skipped: `ValueError` -/
theorem sentence_tag_error (cfg : Cfg τ) (last : τ) (s : Sentence) (ts : List Str)
    (hw : s.words = ts.map some) (hne : strip (ts.flatMap token) ≠ [])
    (pre post : List TimeTag) (t : TimeTag) (hs : s.times = pre ++ t :: post)
    (hpre : ∀ u ∈ pre, tagOk cfg u = true) (hb : tagOk cfg t = false) :
    sentenceLine cfg last s = .error .value := by
  unfold sentenceLine
  rw [hw, joinWords_some]
  simp only [hne, if_false]
  rw [hs, timeSteps_error cfg pre t post _ hpre hb]

end CleanSpec


/-! ### the whole document -/

section DocSpec
variable {τ : Type}

/-- the sentence is not skipped: all its words have text and the joined text is not blank -/
def kept (s : Sentence) : Bool :=
  match joinWords s.words with
  | .ok j => !(strip j).isEmpty
  | .error _ => false

/-- the time tags the reader looks at: those of the sentences that are not skipped -/
def keptTags (d : Document) : List TimeTag := (d.filter kept).flatMap (·.times)

/-- a sentence the reader gets through: no `<w>` without text, and, unless it
    is skipped, only acceptable time tags -/
def regular (cfg : Cfg τ) (s : Sentence) : Bool :=
  !s.words.contains none && (!kept s || s.times.all (tagOk cfg))

/-- **the line a sentence contributes** when `last_time = last` on entry
    (`none`: skipped): `'\n'` per paragraph break, the stripped joined words, `'\n'` -/
def lineOf (cfg : Cfg τ) (last : τ) (s : Sentence) : Option Str :=
  match joinWords s.words with
  | .ok j =>
    if strip j = [] then none
    else some (List.replicate (breakCount cfg last s.times) '\n' ++ strip j ++ ['\n'])
  | .error _ => none

theorem sentenceLine_regular (cfg : Cfg τ) (last : τ) (s : Sentence) (h : regular cfg s = true) :
    sentenceLine cfg last s
      = .ok (lineOf cfg last s, if kept s then lastE cfg last s.times else last) := by
  unfold regular at h
  obtain ⟨h1, h2⟩ := (Bool.and_eq_true _ _).mp h
  have hnone : none ∉ s.words := by simpa using h1
  rcases all_some_or_none s.words with ⟨ts, hw⟩ | hn
  · by_cases he : strip (ts.flatMap token) = []
    · rw [sentence_empty cfg last s ts hw he]
      have hk : kept s = false := by unfold kept; rw [hw, joinWords_some]; simp [he]
      have hl : lineOf cfg last s = none := by unfold lineOf; rw [hw, joinWords_some]; simp [he]
      rw [hk, hl]; rfl
    · have hk : kept s = true := by unfold kept; rw [hw, joinWords_some]; simpa using he
      have ht : ∀ t ∈ s.times, tagOk cfg t = true := by
        rw [hk] at h2
        simpa using h2
      rw [sentence_line cfg last s ts hw he ht]
      have hl : lineOf cfg last s
          = some (List.replicate (breakCount cfg last s.times) '\n' ++ strip (ts.flatMap token) ++ ['\n']) := by
        unfold lineOf; rw [hw, joinWords_some]; simp [he]
      rw [hk, hl]; rfl
  · exact absurd hn hnone

theorem exists_first_bad {α : Type} (p : α → Bool) (l : List α) (h : l.all p = false) :
    ∃ pre t post, l = pre ++ t :: post ∧ (∀ u ∈ pre, p u = true) ∧ p t = false := by
  induction l with
  | nil => simp at h
  | cons a l ih =>
    by_cases ha : p a = true
    · have : l.all p = false := by simpa [List.all_cons, ha] using h
      obtain ⟨pre, t, post, e, h1, h2⟩ := ih this
      refine ⟨a :: pre, t, post, by rw [e]; rfl, ?_, h2⟩
      intro u hu
      rcases List.mem_cons.mp hu with rfl | hu
      · exact ha
      · exact h1 u hu
    · exact ⟨[], a, l, rfl, by simp, by simpa using ha⟩

theorem sentenceLine_irregular (cfg : Cfg τ) (last : τ) (s : Sentence) (h : regular cfg s = false) :
    sentenceLine cfg last s = .error .value := by
  rcases all_some_or_none s.words with ⟨ts, hw⟩ | hn
  · unfold regular at h
    have hnone : s.words.contains none = false := by
      rw [hw]; simp
    rw [hnone] at h
    have h2 : (!kept s || s.times.all (tagOk cfg)) = false := by simpa using h
    have hk : kept s = true := by
      cases hk : kept s with
      | true => rfl
      | false => rw [hk] at h2; simp at h2
    have hall : s.times.all (tagOk cfg) = false := by
      rw [hk] at h2; simpa using h2
    have hne : strip (ts.flatMap token) ≠ [] := by
      unfold kept at hk; rw [hw, joinWords_some] at hk; simpa using hk
    obtain ⟨pre, t, post, e, h1, hb⟩ := exists_first_bad (tagOk cfg) s.times hall
    exact sentence_tag_error cfg last s ts hw hne pre post t e h1 hb
  · exact sentence_word_error cfg last s hn

theorem keptTags_cons (s : Sentence) (d : Document) :
    keptTags (s :: d) = if kept s then s.times ++ keptTags d else keptTags d := by
  unfold keptTags
  by_cases h : kept s = true
  · rw [List.filter_cons_of_pos h, List.flatMap_cons, if_pos h]
  · rw [List.filter_cons_of_neg h, if_neg h]

theorem regular_tags_parse (cfg : Cfg τ) (d : Document) (h : ∀ s ∈ d, regular cfg s = true) :
    ∀ u ∈ keptTags d, tagOk cfg u = true := by
  intro u hu
  unfold keptTags at hu
  obtain ⟨s, hs, hus⟩ := List.mem_flatMap.mp hu
  have hsd := (List.mem_filter.mp hs)
  have hr := h s hsd.1
  unfold regular at hr
  have h2 := ((Bool.and_eq_true _ _).mp hr).2
  rw [hsd.2] at h2
  have : ∀ t ∈ s.times, tagOk cfg t = true := by simpa using h2
  exact this u hus

theorem tagOk_parse {cfg : Cfg τ} {u : TimeTag} (h : tagOk cfg u = true) :
    (parseTime cfg.arith u.value).toBool = true := by
  unfold tagOk at h; exact ((Bool.and_eq_true _ _).mp h).1

/-- **the cleaned document, specified.** For a document the reader gets
    through, the lines are, in order, the lines of the sentences that are not
    skipped, where the `last_time` a sentence starts from is the time of the
    last `E` tag among the tags of the kept sentences before it (`0.0` if none). -/
theorem readCleanFrom_spec (cfg : Cfg τ) : ∀ (d : Document) (last : τ),
    (∀ s ∈ d, regular cfg s = true) →
    readCleanFrom cfg last d
      = .ok ((d.inits.zip d).filterMap (fun p => lineOf cfg (lastE cfg last (keptTags p.1)) p.2))
  | [], _, _ => rfl
  | s :: rest, last, h => by
    have hs := h s List.mem_cons_self
    have hrest : ∀ x ∈ rest, regular cfg x = true := fun x hx => h x (List.mem_cons_of_mem _ hx)
    rw [readCleanFrom, sentenceLine_regular cfg last s hs]
    simp only
    rw [readCleanFrom_spec cfg rest _ hrest]
    rw [List.inits_cons, List.zip_cons_cons, List.filterMap_cons, List.zip_map_left, List.filterMap_map]
    have hcongr : ((rest.inits.zip rest).filterMap
          ((fun p => lineOf cfg (lastE cfg last (keptTags p.1)) p.2) ∘ Prod.map (fun t => s :: t) id))
        = (rest.inits.zip rest).filterMap (fun p =>
            lineOf cfg (lastE cfg (if kept s then lastE cfg last s.times else last) (keptTags p.1)) p.2) := by
      apply List.filterMap_congr
      intro p hp
      have hsub : p.1 <+: rest := (List.mem_inits _ _).mp (List.of_mem_zip hp).1
      have hreg : ∀ x ∈ p.1, regular cfg x = true := fun x hx => hrest x (hsub.subset hx)
      simp only [Function.comp, Prod.map, id]
      rw [keptTags_cons]
      by_cases hk : kept s = true
      · simp only [hk, if_true]
        rw [lastE_append]
        intro u hu _
        rcases List.mem_append.mp hu with hu | hu
        · have : regular cfg s = true := hs
          unfold regular at this
          have h3 := ((Bool.and_eq_true _ _).mp this).2
          rw [hk] at h3
          have h4 : ∀ t ∈ s.times, tagOk cfg t = true := by simpa using h3
          exact tagOk_parse (h4 u hu)
        · exact tagOk_parse (regular_tags_parse cfg p.1 hreg u hu)
      · simp only [hk, if_false, Bool.false_eq_true]
    rw [hcongr]
    simp only [keptTags, List.filter_nil, List.flatMap_nil, lastE_nil]
    cases lineOf cfg last s <;> rfl

/-- the first sentence the reader does not get through: `ValueError`, no line
    of the document is delivered -/
theorem readCleanFrom_error (cfg : Cfg τ) : ∀ (pre : Document) (s : Sentence) (post : Document) (last : τ),
    (∀ x ∈ pre, regular cfg x = true) → regular cfg s = false →
    readCleanFrom cfg last (pre ++ s :: post) = .error .value
  | [], s, post, last, _, hb => by
    rw [List.nil_append, readCleanFrom, sentenceLine_irregular cfg last s hb]
  | x :: pre, s, post, last, h, hb => by
    rw [List.cons_append, readCleanFrom, sentenceLine_regular cfg last x (h x List.mem_cons_self)]
    simp only
    rw [readCleanFrom_error cfg pre s post _ (fun y hy => h y (List.mem_cons_of_mem _ hy)) hb]

/-- so a document either is read completely or raises `ValueError` -/
theorem readClean_total (cfg : Cfg τ) (d : Document) :
    (d.all (regular cfg) = true ∧
      readClean cfg d = .ok ((d.inits.zip d).filterMap
        (fun p => lineOf cfg (lastE cfg cfg.arith.zero (keptTags p.1)) p.2))) ∨
    (d.all (regular cfg) = false ∧ readClean cfg d = .error .value) := by
  cases h : d.all (regular cfg) with
  | true =>
    exact Or.inl ⟨rfl, readCleanFrom_spec cfg d _ (by simpa using h)⟩
  | false =>
    obtain ⟨pre, s, post, e, h1, hb⟩ := exists_first_bad (regular cfg) d h
    exact Or.inr ⟨rfl, by unfold readClean; rw [e]; exact readCleanFrom_error cfg pre s post _ h1 hb⟩

end DocSpec


/-! ## two arithmetics that agree on a document give the same result

`CompareAgrees A B d` (PyndlModel/Corpus.lean) is all that is needed for the
reader over `A` and the reader over `B` to return the same lines — or raise the
same exception — on `d`; in particular for `A` the doubles of the code and `B`
the rationals of the specification. -/

section Agree
variable {τ σ : Type}

/-- the `last_time` values the two readers can hold at the same moment -/
def RelLast (A : Arith τ) (B : Arith σ) (d : Document) (l : τ) (l' : σ) : Prop :=
  (l, l') ∈ (A.zero, B.zero) :: pairedTimes A B isE d

def ResRel {α : Type} (R : τ → σ → Prop) : Except Err (α × τ) → Except Err (α × σ) → Prop
  | .ok (a, l), .ok (a', l') => a = a' ∧ R l l'
  | .error e, .error e' => e = e'
  | _, _ => False

theorem mem_pairedTimes {A : Arith τ} {B : Arith σ} {sel : TimeTag → Bool} {d : Document}
    {t : TimeTag} {x : τ} {y : σ} (ht : t ∈ allTags d) (hs : sel t = true)
    (hx : parseTime A t.value = .ok x) (hy : parseTime B t.value = .ok y) :
    (x, y) ∈ pairedTimes A B sel d := by
  unfold pairedTimes
  exact List.mem_filterMap.mpr ⟨t, ht, by simp [hs, hx, hy]⟩

theorem timeStep_agree (cfgA : Cfg τ) (cfgB : Cfg σ) (d : Document)
    (h : CompareAgrees cfgA.arith cfgB.arith d) (t : TimeTag) (ht : t ∈ allTags d)
    (r : Str) (l : τ) (l' : σ) (hl : RelLast cfgA.arith cfgB.arith d l l') :
    ResRel (RelLast cfgA.arith cfgB.arith d) (timeStep cfgA (r, l) t) (timeStep cfgB (r, l') t) := by
  have hb := h.1 t ht
  unfold timeStep
  cases hx : parseTime cfgA.arith t.value with
  | error e =>
    cases hy : parseTime cfgB.arith t.value with
    | error e' =>
      simp only [ResRel]
      rw [parseTime_error_value hx, parseTime_error_value hy]
    | ok y => rw [hx, hy] at hb; simp [Except.toBool] at hb
  | ok x =>
    cases hy : parseTime cfgB.arith t.value with
    | error e' => rw [hx, hy] at hb; simp [Except.toBool] at hb
    | ok y =>
      simp only
      by_cases hS : isS t = true
      · have hE := isS_not_isE hS
        have hmem : (x, y) ∈ pairedTimes cfgA.arith cfgB.arith (fun t => !isE t) d :=
          mem_pairedTimes ht (by simp [hE]) hx hy
        have hex := h.2 (x, y) hmem (l, l') hl
        simp only at hex
        by_cases hA : cfgA.arith.exceeds x l = true
        · have hB : cfgB.arith.exceeds y l' = true := by rw [← hex]; exact hA
          simp only [hS, hA, hB, and_self, if_true, ResRel]
          exact ⟨trivial, hl⟩
        · have hB : ¬ cfgB.arith.exceeds y l' = true := by rw [← hex]; exact hA
          simp only [hS, hE, hA, hB, and_false, if_false, if_true, Bool.false_eq_true, ResRel]
          exact ⟨trivial, hl⟩
      · have hS' : isS t = false := by simpa using hS
        by_cases hE : isE t = true
        · have hr : RelLast cfgA.arith cfgB.arith d x y :=
            List.mem_cons_of_mem _ (mem_pairedTimes ht hE hx hy)
          simp [hS', hE, ResRel, hr]
        · have hE' : isE t = false := by simpa using hE
          simp [hS', hE', ResRel]

theorem timeSteps_agree (cfgA : Cfg τ) (cfgB : Cfg σ) (d : Document)
    (h : CompareAgrees cfgA.arith cfgB.arith d) : ∀ (ts : List TimeTag), (∀ t ∈ ts, t ∈ allTags d) →
    ∀ (r : Str) (l : τ) (l' : σ), RelLast cfgA.arith cfgB.arith d l l' →
    ResRel (RelLast cfgA.arith cfgB.arith d) (timeSteps cfgA (r, l) ts) (timeSteps cfgB (r, l') ts)
  | [], _, r, l, l', hl => by simp only [timeSteps, ResRel]; exact ⟨trivial, hl⟩
  | t :: ts, hts, r, l, l', hl => by
    have h1 := timeStep_agree cfgA cfgB d h t (hts t List.mem_cons_self) r l l' hl
    rw [timeSteps, timeSteps]
    cases hA : timeStep cfgA (r, l) t with
    | error e =>
      cases hB : timeStep cfgB (r, l') t with
      | error e' => rw [hA, hB] at h1; simpa [ResRel] using h1
      | ok b => rw [hA, hB] at h1; simp [ResRel] at h1
    | ok a =>
      cases hB : timeStep cfgB (r, l') t with
      | error e' => rw [hA, hB] at h1; obtain ⟨a1, a2⟩ := a; simp [ResRel] at h1
      | ok b =>
        rw [hA, hB] at h1
        obtain ⟨a1, a2⟩ := a
        obtain ⟨b1, b2⟩ := b
        simp only [ResRel] at h1
        obtain ⟨e, hr⟩ := h1
        subst e
        exact timeSteps_agree cfgA cfgB d h ts (fun u hu => hts u (List.mem_cons_of_mem _ hu)) a1 a2 b2 hr

theorem sentenceLine_agree (cfgA : Cfg τ) (cfgB : Cfg σ) (d : Document)
    (h : CompareAgrees cfgA.arith cfgB.arith d) (s : Sentence) (hs : s ∈ d)
    (l : τ) (l' : σ) (hl : RelLast cfgA.arith cfgB.arith d l l') :
    ResRel (RelLast cfgA.arith cfgB.arith d) (sentenceLine cfgA l s) (sentenceLine cfgB l' s) := by
  unfold sentenceLine
  cases hj : joinWords s.words with
  | error e => simp [ResRel]
  | ok j =>
    simp only
    by_cases he : strip j = []
    · simp only [he, if_true, ResRel]; exact ⟨trivial, hl⟩
    · simp only [he, if_false]
      have hts : ∀ t ∈ s.times, t ∈ allTags d := fun t ht =>
        List.mem_flatMap.mpr ⟨s, hs, ht⟩
      have h1 := timeSteps_agree cfgA cfgB d h s.times hts (strip j) l l' hl
      cases hA : timeSteps cfgA (strip j, l) s.times with
      | error e =>
        cases hB : timeSteps cfgB (strip j, l') s.times with
        | error e' => rw [hA, hB] at h1; simpa [ResRel] using h1
        | ok b => rw [hA, hB] at h1; simp [ResRel] at h1
      | ok a =>
        obtain ⟨a1, a2⟩ := a
        cases hB : timeSteps cfgB (strip j, l') s.times with
        | error e' => rw [hA, hB] at h1; simp [ResRel] at h1
        | ok b =>
          obtain ⟨b1, b2⟩ := b
          rw [hA, hB] at h1
          simp only [ResRel] at h1 ⊢
          exact ⟨by rw [h1.1], h1.2⟩

theorem readCleanFrom_agree (cfgA : Cfg τ) (cfgB : Cfg σ) (d : Document)
    (h : CompareAgrees cfgA.arith cfgB.arith d) : ∀ (ss : Document), (∀ s ∈ ss, s ∈ d) →
    ∀ (l : τ) (l' : σ), RelLast cfgA.arith cfgB.arith d l l' →
    readCleanFrom cfgA l ss = readCleanFrom cfgB l' ss
  | [], _, _, _, _ => rfl
  | s :: ss, hss, l, l', hl => by
    have h1 := sentenceLine_agree cfgA cfgB d h s (hss s List.mem_cons_self) l l' hl
    rw [readCleanFrom, readCleanFrom]
    cases hA : sentenceLine cfgA l s with
    | error e =>
      cases hB : sentenceLine cfgB l' s with
      | error e' => rw [hA, hB] at h1; simp only [ResRel] at h1; rw [h1]
      | ok b => rw [hA, hB] at h1; simp [ResRel] at h1
    | ok a =>
      obtain ⟨a1, a2⟩ := a
      cases hB : sentenceLine cfgB l' s with
      | error e' => rw [hA, hB] at h1; simp [ResRel] at h1
      | ok b =>
        obtain ⟨b1, b2⟩ := b
        rw [hA, hB] at h1
        simp only [ResRel] at h1
        obtain ⟨e, hr⟩ := h1
        subst e
        simp only
        rw [readCleanFrom_agree cfgA cfgB d h ss (fun x hx => hss x (List.mem_cons_of_mem _ hx)) a2 b2 hr]

/-- **readClean_agree.** Two arithmetics that accept the same time values of
    the document and answer its paragraph tests alike read it alike (same
    lines, or the same exception). -/
theorem readClean_agree (cfgA : Cfg τ) (cfgB : Cfg σ) (d : Document)
    (h : CompareAgrees cfgA.arith cfgB.arith d) : readClean cfgA d = readClean cfgB d :=
  readCleanFrom_agree cfgA cfgB d h d (fun _ hs => hs) _ _ List.mem_cons_self

/-- `P` holds of the entry if it is a document -/
def docProp (P : Document → Prop) : Entry → Prop
  | .doc d => P d
  | _ => True

instance (P : Document → Prop) [DecidablePred P] : DecidablePred (docProp P) := fun e => by
  cases e <;> simp only [docProp] <;> infer_instance

/-- every document among the `.gz` files of the tree satisfies `P` (decidable
    when `P` is) -/
def AllDocs (P : Document → Prop) (gz : List (Str × Entry)) : Prop :=
  ∀ p ∈ gz, docProp P p.2

instance (P : Document → Prop) [DecidablePred P] (gz : List (Str × Entry)) : Decidable (AllDocs P gz) := by
  unfold AllDocs; infer_instance

theorem AllDocs.doc {P : Document → Prop} {gz : List (Str × Entry)} (h : AllDocs P gz)
    {p : Str × Entry} (hp : p ∈ gz) {d : Document} (e : p.2 = .doc d) : P d := by
  have := h p hp
  rw [e] at this
  exact this

theorem runJob_agree (cfgA : Cfg τ) (cfgB : Cfg σ) (hm : cfgA.marker = cfgB.marker) (path : Str)
    (e : Entry) (h : ∀ d, e = .doc d → CompareAgrees cfgA.arith cfgB.arith d) :
    runJob cfgA path e = runJob cfgB path e := by
  cases e with
  | doc d => simp only [runJob, readClean_agree cfgA cfgB d (h d rfl), hm]
  | dangling => rfl
  | notGzip => rfl
  | dir => rfl

theorem docPieces_agree (cfgA : Cfg τ) (cfgB : Cfg σ) (hm : cfgA.marker = cfgB.marker)
    (e : Entry) (h : ∀ d, e = .doc d → CompareAgrees cfgA.arith cfgB.arith d) :
    docPieces cfgA e = docPieces cfgB e := by
  cases e with
  | doc d => simp only [docPieces, readClean_agree cfgA cfgB d (h d rfl), hm]
  | dangling => rfl
  | notGzip => rfl
  | dir => rfl

theorem readable_agree (cfgA : Cfg τ) (cfgB : Cfg σ)
    (e : Entry) (h : ∀ d, e = .doc d → CompareAgrees cfgA.arith cfgB.arith d) :
    readable cfgA e = readable cfgB e := by
  cases e with
  | doc d => simp only [readable, readClean_agree cfgA cfgB d (h d rfl)]
  | dangling => rfl
  | notGzip => rfl
  | dir => rfl

/-- **createCorpus_agree.** If the two arithmetics agree on every document
    among the `.gz` files, the two runs have the same outcome. -/
theorem createCorpus_agree (cfgA : Cfg τ) (cfgB : Cfg σ) (hm : cfgA.marker = cfgB.marker)
    (n : Nat) (directory outfile : Str) (w : World) (tree : List (Str × Entry))
    (h : AllDocs (CompareAgrees cfgA.arith cfgB.arith) (gzFiles directory tree)) :
    createCorpus cfgA n directory outfile w tree = createCorpus cfgB n directory outfile w tree := by
  unfold createCorpus
  by_cases h1 : (!w.dirExists) = true
  · rw [if_pos h1, if_pos h1]
  · by_cases h2 : w.files.contains outfile = true
    · rw [if_neg h1, if_pos h2, if_neg h1, if_pos h2]
    · by_cases h3 : n = 0
      · rw [if_neg h1, if_neg h2, if_pos h3, if_neg h1, if_neg h2, if_pos h3]
      · rw [if_neg h1, if_neg h2, if_neg h3, if_neg h1, if_neg h2, if_neg h3]
        have hn : 0 < n := Nat.pos_of_ne_zero h3
        have : imap n (fun p => runJob cfgA p.1 p.2) (gzFiles directory tree)
            = imap n (fun p => runJob cfgB p.1 p.2) (gzFiles directory tree) := by
          rw [imap_eq_map n hn, imap_eq_map n hn]
          apply List.map_congr_left
          intro p hp
          exact runJob_agree cfgA cfgB hm p.1 p.2 (fun d e => h.doc hp e)
        simp only [this]

end Agree

/-! ## what is proved about `CodeCompareAgrees` (doubles against rationals)

`CodeCompareAgrees fps brk d` is the hypothesis of the exact-time theorems of
C19.  Proved here: its first clause always holds, so it IS the statement about
the comparisons (`codeCompareAgrees_iff`); a document without a time value that
is not an `E` time satisfies it (`codeCompareAgrees_of_no_start`).  NOT proved:
`TimesExactSuffices` (see its docstring in `PyndlModel/Corpus.lean`). -/

/-- the doubles and the rationals accept exactly the same time values (both
    read the four fields with `parseNat`) -/
theorem parseTime_float_rat_toBool (fps : Nat) (brkF : Float) (brk : Rat) (v : Str) :
    (parseTime (floatArith fps brkF) v).toBool = (parseTime (ratArith fps brk) v).toBool := by
  unfold parseTime
  split
  · rename_i h m sec f _
    simp only [floatArith, ratArith]
    cases parseNat h <;> cases parseNat m <;> cases parseNat sec <;> cases parseNat f <;> rfl
  · rfl

/-- **codeCompareAgrees_iff.** For the code's doubles against exact rationals,
    `CompareAgrees` is exactly: for every time `a` of a tag that is not an `E`
    tag and every time `e` of an `E` tag (or the initial 0), computed in both
    arithmetics, `a − e > brk` comes out the same. -/
theorem codeCompareAgrees_iff (fps : Nat) (brk : Rat) (d : Document) :
    CodeCompareAgrees fps brk d ↔
      ∀ a ∈ pairedTimes (floatArith fps (floatOfRat brk)) (ratArith fps brk) (fun t => !isE t) d,
        ∀ e ∈ ((0.0 : Float), (0 : Rat)) ::
            pairedTimes (floatArith fps (floatOfRat brk)) (ratArith fps brk) isE d,
          decide (a.1 - e.1 > floatOfRat brk) = decide (a.2 - e.2 > brk) := by
  unfold CodeCompareAgrees CompareAgrees
  constructor
  · intro h; exact h.2
  · intro h; exact ⟨fun t _ => parseTime_float_rat_toBool fps _ brk t.value, h⟩

/-- a document in which no tag other than `E` tags carries a parsable time
    makes no comparison whose outcome matters: `CodeCompareAgrees` holds -/
theorem codeCompareAgrees_of_no_start (fps : Nat) (brk : Rat) (d : Document)
    (h : pairedTimes (floatArith fps (floatOfRat brk)) (ratArith fps brk) (fun t => !isE t) d = []) :
    CodeCompareAgrees fps brk d := by
  rw [codeCompareAgrees_iff, h]
  intro a ha
  cases ha



/-! ## `_parse_time_string`: both branches, and the literal domain -/

section ParseTime
variable {τ : Type}

/-- `time_string.replace(',', ':').split(':')` -/
def fields (v : Str) : List Str := splitOnChar ':' (v.map (fun c => if c = ',' then ':' else c))

/-- **`_parse_time_string`, both branches.** Either the string has exactly four
    fields that `float` accepts, and the result is the time formed from them, or
    it has not (a different number of fields, or a field `float` rejects) and
    `ValueError` is raised. -/
theorem parseTime_spec (A : Arith τ) (v : Str) :
    (∃ h m s f a b c e, fields v = [h, m, s, f] ∧ A.lit h = some a ∧ A.lit m = some b ∧
        A.lit s = some c ∧ A.lit f = some e ∧ parseTime A v = .ok (A.time a b c e)) ∨
    (((fields v).length ≠ 4 ∨ ∃ x ∈ fields v, A.lit x = none) ∧ parseTime A v = .error .value) := by
  unfold parseTime
  change _ ∨ (_ ∧ (match fields v with
    | [h, m, sec, f] =>
      (match A.lit h, A.lit m, A.lit sec, A.lit f with
      | some h, some m, some sec, some f => Except.ok (A.time h m sec f)
      | _, _, _, _ => Except.error Err.value)
    | _ => Except.error Err.value) = _)
  rcases hf : fields v with _ | ⟨h, _ | ⟨m, _ | ⟨s, _ | ⟨f, _ | ⟨g, r⟩⟩⟩⟩⟩
  · exact Or.inr ⟨Or.inl (by simp), rfl⟩
  · exact Or.inr ⟨Or.inl (by simp), rfl⟩
  · exact Or.inr ⟨Or.inl (by simp), rfl⟩
  · exact Or.inr ⟨Or.inl (by simp), rfl⟩
  · cases ha : A.lit h with
    | none => exact Or.inr ⟨Or.inr ⟨h, by simp, ha⟩, by simp [ha]⟩
    | some a =>
      cases hb : A.lit m with
      | none => exact Or.inr ⟨Or.inr ⟨m, by simp, hb⟩, by simp [ha, hb]⟩
      | some b =>
        cases hc : A.lit s with
        | none => exact Or.inr ⟨Or.inr ⟨s, by simp, hc⟩, by simp [ha, hb, hc]⟩
        | some c =>
          cases he : A.lit f with
          | none => exact Or.inr ⟨Or.inr ⟨f, by simp, he⟩, by simp [ha, hb, hc, he]⟩
          | some e =>
            refine Or.inl ⟨h, m, s, f, a, b, c, e, ?_, ha, hb, hc, he, ?_⟩
            · rfl
            · unfold fields at hf; simp [hf, ha, hb, hc, he]
  · exact Or.inr ⟨Or.inl (by simp), rfl⟩

theorem digitVal_isSome (c : Char) : (digitVal c).isSome = isAsciiDigit c := by
  unfold digitVal isAsciiDigit
  by_cases h : 48 ≤ c.toNat ∧ c.toNat ≤ 57
  · rw [if_pos h]; simp [h.1, h.2]
  · rw [if_neg h]
    by_cases h1 : 48 ≤ c.toNat
    · have : ¬ c.toNat ≤ 57 := fun h2 => h ⟨h1, h2⟩
      simp [h1, this]
    · simp [h1]

theorem foldlM_digits_isSome : ∀ (cs : Str) (acc : Nat),
    (cs.foldlM (fun acc c => (digitVal c).map (fun d => acc * 10 + d)) acc).isSome = cs.all isAsciiDigit
  | [], _ => rfl
  | c :: cs, acc => by
    rw [List.foldlM_cons, List.all_cons, ← digitVal_isSome]
    cases hd : digitVal c with
    | none => rfl
    | some d => simpa using foldlM_digits_isSome cs (acc * 10 + d)

/-- the literal reader of the executable arithmetics accepts exactly the
    non-empty strings of ASCII digits -/
theorem parseNat_isSome (f : Str) : (parseNat f).isSome = (!f.isEmpty && f.all isAsciiDigit) := by
  cases f with
  | nil => rfl
  | cons c cs => exact foldlM_digits_isSome (c :: cs) 0

theorem lit_rat_none (fps : Nat) (brk : Rat) (f : Str) :
    (ratArith fps brk).lit f = none ↔ parseNat f = none := by
  simp only [ratArith]; cases parseNat f <;> simp

theorem lit_float_none (fps : Nat) (brk : Float) (f : Str) :
    (floatArith fps brk).lit f = none ↔ parseNat f = none := by
  simp only [floatArith]; cases parseNat f <;> simp

theorem digit_not_space {c : Char} (h : isAsciiDigit c = true) : isFloatSpace c = false := by
  unfold isAsciiDigit at h; unfold isFloatSpace
  have h' : 48 ≤ c.toNat ∧ c.toNat ≤ 57 := by simpa using h
  have h1 : ¬ c.toNat ≤ 13 := by omega
  have h2 : ¬ c.toNat = 32 := by omega
  simp [h1, h2]

theorem dropWhile_head_false {α : Type} (p : α → Bool) (c : α) (cs : List α) (h : p c = false) :
    (c :: cs).dropWhile p = c :: cs := by simp [List.dropWhile_cons, h]

theorem digit_toNat {c : Char} (h : isAsciiDigit c = true) : 48 ≤ c.toNat ∧ c.toNat ≤ 57 := by
  unfold isAsciiDigit at h; simpa using h

/-- a non-empty digit string is a float literal for the grammar `floatAccepts`:
    the two clauses of `LitDomain` do not overlap -/
theorem digits_floatAccepts (f : Str) (hne : f ≠ []) (hd : f.all isAsciiDigit = true) :
    floatAccepts f = true := by
  have hall : ∀ c ∈ f, isAsciiDigit c = true := by simpa using hd
  have hund : f.contains '_' = false := by
    rw [List.contains_eq_mem]
    simp only [decide_eq_false_iff_not]
    intro hm
    have := digit_toNat (hall _ hm)
    revert this; decide
  unfold floatAccepts
  rw [hund]
  simp only [Bool.false_eq_true, if_false]
  obtain ⟨c, cs, rfl⟩ := List.exists_cons_of_ne_nil hne
  have hc := hall c List.mem_cons_self
  rw [dropWhile_head_false _ c cs (digit_not_space hc)]
  obtain ⟨x, xs, hx⟩ : ∃ x xs, (c :: cs).reverse = x :: xs := by
    cases h : (c :: cs).reverse with
    | nil => simp at h
    | cons x xs => exact ⟨x, xs, rfl⟩
  have hxm : x ∈ c :: cs := List.mem_reverse.mp (hx ▸ List.mem_cons_self)
  rw [hx, dropWhile_head_false _ x xs (digit_not_space (hall x hxm)), ← hx, List.reverse_reverse]
  -- floatBody on a digit string
  have hcn := digit_toNat hc
  have hsign : dropSign (c :: cs) = c :: cs := by
    unfold dropSign
    split
    · rename_i r heq
      have : c = '+' := (List.cons.inj heq).1
      rw [this] at hcn; exact absurd hcn (by decide)
    · rename_i r heq
      have : c = '-' := (List.cons.inj heq).1
      rw [this] at hcn; exact absurd hcn (by decide)
    · rfl
  have hlow : lowerAscii c = c := by
    unfold lowerAscii
    have : ¬ (65 ≤ c.toNat ∧ c.toNat ≤ 90) := by omega
    rw [if_neg this]
  have hci : c ≠ 'i' := by intro e; rw [e] at hcn; revert hcn; decide
  have hcnn : c ≠ 'n' := by intro e; rw [e] at hcn; revert hcn; decide
  have htw : (c :: cs).takeWhile isAsciiDigit = c :: cs := List.takeWhile_eq_self_iff.mpr (fun y hy => hall y hy)
  have hdw : (c :: cs).dropWhile isAsciiDigit = [] := List.dropWhile_eq_nil_iff.mpr (fun y hy => hall y hy)
  unfold floatBody
  simp only [hsign, List.map_cons, hlow, htw, hdw]
  have n1 : ¬ (c :: cs.map lowerAscii = "inf".toList ∨ c :: cs.map lowerAscii = "infinity".toList ∨
      c :: cs.map lowerAscii = "nan".toList) := by
    intro h
    rcases h with h | h | h
    · exact hci (List.cons.inj h).1
    · exact hci (List.cons.inj h).1
    · exact hcnn (List.cons.inj h).1
  rw [if_neg n1]
  simp

/-- a field `float` certainly rejects is not a digit string -/
theorem floatRejects_parseNat {f : Str} (h : floatRejects f = true) : parseNat f = none := by
  cases hp : parseNat f with
  | none => rfl
  | some n =>
    exfalso
    have h1 : (parseNat f).isSome = true := by rw [hp]; rfl
    rw [parseNat_isSome] at h1
    obtain ⟨hne, hd⟩ := (Bool.and_eq_true _ _).mp h1
    have hne' : f ≠ [] := by intro e; rw [e] at hne; simp at hne
    have := digits_floatAccepts f hne' hd
    unfold floatRejects at h
    rw [this] at h
    simp at h

/-- **inside the literal domain the model's `ValueError` is `float`'s.** For a
    time value in `LitDomain`, the executable reader (digit strings only) raises
    exactly when the string does not have four fields or has a field that
    `float` certainly rejects (`floatRejects`, the CPython grammar). -/
theorem parseTime_error_in_domain (fps : Nat) (brk : Rat) (v : Str) (hdom : LitDomain v = true) :
    parseTime (ratArith fps brk) v = .error .value ↔
      ((fields v).length ≠ 4 ∨ ∃ x ∈ fields v, floatRejects x = true) := by
  constructor
  · intro he
    rcases parseTime_spec (ratArith fps brk) v with ⟨h, m, s, f, a, b, c, e, _, _, _, _, _, hok⟩ | ⟨hbad, _⟩
    · rw [hok] at he; cases he
    · rcases hbad with hlen | ⟨x, hx, hnone⟩
      · exact Or.inl hlen
      · by_cases hlen : (fields v).length = 4
        · right
          have hpn : parseNat x = none := (lit_rat_none fps brk x).mp hnone
          unfold LitDomain at hdom
          change (match fields v with
            | [h, m, s, f] => [h, m, s, f].any floatRejects ||
                [h, m, s, f].all (fun x => match parseNat x with | some n => decide (n < fieldBound) | none => false)
            | _ => true) = true at hdom
          rcases hf : fields v with _ | ⟨h, _ | ⟨m, _ | ⟨s, _ | ⟨f, _ | ⟨g, r⟩⟩⟩⟩⟩ <;> rw [hf] at hlen <;>
            simp at hlen
          rw [hf] at hdom hx
          simp only at hdom
          rcases (Bool.or_eq_true _ _).mp hdom with h1 | h1
          · obtain ⟨y, hy, hr⟩ := List.any_eq_true.mp h1
            exact ⟨y, hy, hr⟩
          · have := List.all_eq_true.mp h1 x hx
            rw [hpn] at this
            simp at this
        · exact Or.inl hlen
  · intro h
    rcases parseTime_spec (ratArith fps brk) v with ⟨h', m, s, f, a, b, c, e, hf, ha, hb, hc, he, _⟩ | ⟨_, herr⟩
    · exfalso
      rcases h with hlen | ⟨x, hx, hr⟩
      · rw [hf] at hlen; simp at hlen
      · have hpn := floatRejects_parseNat hr
        have hnone : (ratArith fps brk).lit x = none := (lit_rat_none fps brk x).mpr hpn
        rw [hf] at hx
        simp only [List.mem_cons, List.not_mem_nil, or_false] at hx
        rcases hx with rfl | rfl | rfl | rfl
        · rw [hnone] at ha; cases ha
        · rw [hnone] at hb; cases hb
        · rw [hnone] at hc; cases hc
        · rw [hnone] at he; cases he
    · exact herr

end ParseTime

end Corpus
end Pyndl
