/-
  PyndlProofs.Corpus — helper lemmas for C19 about the corpus model
  (`PyndlModel/Corpus.lean`): the path order, the insertion sort, the ordered
  `imap`, the consumer loop, `safe_write_path`.
-/
import PyndlModel.Corpus
import PyndlModel.Generated
import Std.Data.String.ToNat
import Mathlib.Data.List.Perm.Subperm
import Mathlib.Data.List.Nodup

set_option linter.unusedSimpArgs false
set_option linter.unusedVariables false

namespace Pyndl
namespace Corpus
open List

/-! ## the path order is a strict total order -/

theorem lexLt_irrefl : ∀ a : Str, lexLt a a = false
  | [] => rfl
  | c :: cs => by simp [lexLt, lexLt_irrefl cs]

theorem lexLt_asymm : ∀ {a b : Str}, lexLt a b = true → lexLt b a = false
  | [], [], h => by simp [lexLt] at h
  | [], _ :: _, _ => rfl
  | _ :: _, [], h => by simp [lexLt] at h
  | a :: as, b :: bs, h => by
    simp only [lexLt] at h ⊢
    by_cases h1 : a.toNat < b.toNat
    · have : ¬ b.toNat < a.toNat := by omega
      simp [h1, this]
    · by_cases h2 : b.toNat < a.toNat
      · simp [h1, h2] at h
      · simp only [h1, h2, if_false] at h ⊢
        exact lexLt_asymm h

theorem lexLt_trans : ∀ {a b c : Str}, lexLt a b = true → lexLt b c = true → lexLt a c = true
  | [], [], _, h, _ => by simp [lexLt] at h
  | [], _ :: _, [], _, h => by simp [lexLt] at h
  | [], _ :: _, _ :: _, _, _ => rfl
  | _ :: _, [], _, h, _ => by simp [lexLt] at h
  | _ :: _, _ :: _, [], _, h => by simp [lexLt] at h
  | a :: as, b :: bs, c :: cs, h₁, h₂ => by
    simp only [lexLt] at h₁ h₂ ⊢
    by_cases ab : a.toNat < b.toNat
    · by_cases bc : b.toNat < c.toNat
      · have : a.toNat < c.toNat := by omega
        simp [this]
      · by_cases cb : c.toNat < b.toNat
        · simp [bc, cb] at h₂
        · have : a.toNat < c.toNat := by omega
          simp [this]
    · by_cases ba : b.toNat < a.toNat
      · simp [ab, ba] at h₁
      · simp only [ab, ba, if_false] at h₁
        have e : a.toNat = b.toNat := by omega
        by_cases bc : b.toNat < c.toNat
        · have : a.toNat < c.toNat := by omega
          simp [this]
        · by_cases cb : c.toNat < b.toNat
          · simp [bc, cb] at h₂
          · simp only [bc, cb, if_false] at h₂
            have h1 : ¬ a.toNat < c.toNat := by omega
            have h2 : ¬ c.toNat < a.toNat := by omega
            simp only [h1, h2, if_false]
            exact lexLt_trans h₁ h₂

/-- trichotomy: two paths neither of which is smaller are the same string -/
theorem lexLt_total : ∀ {a b : Str}, lexLt a b = false → lexLt b a = false → a = b
  | [], [], _, _ => rfl
  | [], _ :: _, h, _ => by simp [lexLt] at h
  | _ :: _, [], _, h => by simp [lexLt] at h
  | a :: as, b :: bs, h₁, h₂ => by
    simp only [lexLt] at h₁ h₂
    by_cases ab : a.toNat < b.toNat
    · simp [ab] at h₁
    · by_cases ba : b.toNat < a.toNat
      · simp [ba] at h₂
      · simp only [ab, ba, if_false] at h₁ h₂
        have e : a = b := Char.toNat_inj.mp (by omega)
        rw [e, lexLt_total h₁ h₂]

theorem lexLt_ne {a b : Str} (h : lexLt a b = true) : a ≠ b := by
  intro e; subst e; rw [lexLt_irrefl] at h; exact Bool.noConfusion h

/-- `a ≤ b ≤ c → a ≤ c` for the non-strict order `¬ (· > ·)` -/
theorem lexLe_trans {a b c : Str} (h₁ : lexLt b a = false) (h₂ : lexLt c b = false) :
    lexLt c a = false := by
  cases hca : lexLt c a with
  | false => rfl
  | true =>
    cases hab : lexLt a b with
    | true => rw [lexLt_trans hca hab] at h₂; exact Bool.noConfusion h₂
    | false =>
      have : a = b := lexLt_total hab h₁
      subst this; rw [hca] at h₂; exact Bool.noConfusion h₂

/-! ## insertion sort: permutation, sorted, unique -/

section SortSec
variable {α : Type} (key : α → Str)

theorem insertBy_perm (x : α) : ∀ l : List α, insertBy key x l ~ x :: l
  | [] => Perm.refl _
  | y :: ys => by
    simp only [insertBy]
    split
    · exact ((insertBy_perm x ys).cons y).trans (Perm.swap x y ys)
    · exact Perm.refl _

theorem sortBy_perm : ∀ l : List α, sortBy key l ~ l
  | [] => Perm.refl _
  | x :: xs => (insertBy_perm key x (sortBy key xs)).trans ((sortBy_perm xs).cons x)

/-- weakly sorted: no later element is smaller -/
def SortedLe (l : List α) : Prop := l.Pairwise (fun a b => lexLt (key b) (key a) = false)
/-- strictly sorted -/
def SortedLt (l : List α) : Prop := l.Pairwise (fun a b => lexLt (key a) (key b) = true)

theorem insertBy_sorted (x : α) : ∀ l : List α, SortedLe key l → SortedLe key (insertBy key x l)
  | [], _ => by simp [insertBy, SortedLe]
  | y :: ys, h => by
    have hy := (pairwise_cons.mp h)
    simp only [insertBy]
    by_cases c : lexLt (key y) (key x) = true
    · rw [if_pos c]
      refine pairwise_cons.mpr ⟨?_, insertBy_sorted x ys hy.2⟩
      intro z hz
      rcases mem_cons.mp ((insertBy_perm key x ys).subset hz) with rfl | hz
      · exact lexLt_asymm c
      · exact hy.1 z hz
    · rw [if_neg c]
      have c' : lexLt (key y) (key x) = false := by simpa using c
      refine pairwise_cons.mpr ⟨?_, h⟩
      intro z hz
      rcases mem_cons.mp hz with rfl | hz
      · exact c'
      · exact lexLe_trans c' (hy.1 z hz)

theorem sortBy_sortedLe : ∀ l : List α, SortedLe key (sortBy key l)
  | [] => Pairwise.nil
  | x :: xs => insertBy_sorted key x _ (sortBy_sortedLe xs)

/-- with pairwise different keys the result is strictly increasing -/
theorem sortBy_sortedLt (l : List α) (hn : (l.map key).Nodup) : SortedLt key (sortBy key l) := by
  have hn' : ((sortBy key l).map key).Nodup := ((sortBy_perm key l).map key).nodup_iff.mpr hn
  have hne : (sortBy key l).Pairwise (fun a b => key a ≠ key b) := pairwise_map.mp hn'
  refine ((sortBy_sortedLe key l).and hne).imp ?_
  intro a b ⟨h₁, h₂⟩
  cases h : lexLt (key a) (key b) with
  | true => rfl
  | false => exact absurd (lexLt_total h h₁) h₂

/-- a strictly sorted permutation of a list is unique -/
theorem sortedLt_unique {l₁ l₂ : List α} (h₁ : SortedLt key l₁) (h₂ : SortedLt key l₂) (hp : l₁ ~ l₂) :
    l₁ = l₂ :=
  Perm.eq_of_pairwise (le := fun a b => lexLt (key a) (key b) = true)
    (fun a b _ _ hab hba => by rw [lexLt_asymm hab] at hba; exact Bool.noConfusion hba) h₁ h₂ hp

/-- the sort result does not depend on the order of its input (`os.walk` order) -/
theorem sortBy_perm_invariant {l₁ l₂ : List α} (hp : l₁ ~ l₂) (hn : (l₁.map key).Nodup) :
    sortBy key l₁ = sortBy key l₂ :=
  sortedLt_unique key (sortBy_sortedLt key l₁ hn)
    (sortBy_sortedLt key l₂ ((hp.map key).nodup_iff.mp hn))
    (((sortBy_perm key l₁).trans hp).trans (sortBy_perm key l₂).symm)

end SortSec

/-! ## `gzFiles`: independent of the order in which `os.walk` lists the tree -/

theorem pyJoin_inj (d : Str) {a b : Str} (h : pyJoin d a = pyJoin d b) : a = b := by
  unfold pyJoin at h
  by_cases h1 : d = []
  · simpa [h1] using h
  · by_cases h2 : d.getLast? = some '/'
    · simp only [h1, h2, if_true, if_false] at h
      exact List.append_cancel_left h
    · simp only [h1, h2, if_false] at h
      have := List.append_cancel_left h
      exact (List.cons.inj this).2

/-- the list that is sorted -/
def gzUnsorted (directory : Str) (tree : List (Str × Entry)) : List (Str × Entry) :=
  (tree.filter (fun e => !isDir e.2 && endsWith ".gz".toList e.1)).map (fun e => (pyJoin directory e.1, e.2))

theorem gzFiles_eq (directory : Str) (tree : List (Str × Entry)) :
    gzFiles directory tree = sortBy (·.1) (gzUnsorted directory tree) := rfl

theorem gzUnsorted_nodup (directory : Str) (tree : List (Str × Entry)) (hn : (tree.map (·.1)).Nodup) :
    ((gzUnsorted directory tree).map (·.1)).Nodup := by
  unfold gzUnsorted
  rw [List.map_map]
  have h1 : ((tree.filter (fun e => !isDir e.2 && endsWith ".gz".toList e.1)).map (·.1)).Nodup :=
    hn.sublist ((filter_sublist).map _)
  have h2 := h1.map (f := pyJoin directory) (fun a b h => pyJoin_inj directory h)
  rw [List.map_map] at h2
  exact h2

theorem gzFiles_perm (directory : Str) {t₁ t₂ : List (Str × Entry)} (hp : t₁ ~ t₂)
    (hn : (t₁.map (·.1)).Nodup) : gzFiles directory t₁ = gzFiles directory t₂ := by
  rw [gzFiles_eq, gzFiles_eq]
  exact sortBy_perm_invariant _ ((hp.filter _).map _) (gzUnsorted_nodup directory t₁ hn)

theorem gzFiles_nodup (directory : Str) (tree : List (Str × Entry)) (hn : (tree.map (·.1)).Nodup) :
    ((gzFiles directory tree).map (·.1)).Nodup :=
  ((sortBy_perm _ _).map _).nodup_iff.mpr (gzUnsorted_nodup directory tree hn)

/-! ## `imap`: results in submission order for every arrival order -/

theorem lookup_of_mem {β : Type} : ∀ (l : List (Nat × β)) (k : Nat) (v : β),
    (l.map Prod.fst).Nodup → (k, v) ∈ l → l.lookup k = some v
  | [], _, _, _, h => by simp at h
  | (k', v') :: l, k, v, hn, h => by
    simp only [map_cons, nodup_cons] at hn
    rcases mem_cons.mp h with e | h
    · cases e; simp [List.lookup_cons]
    · have hne : k ≠ k' := fun e => hn.1 (e ▸ mem_map.mpr ⟨(k, v), h, rfl⟩)
      have : (k == k') = false := by simpa using hne
      rw [List.lookup_cons, this]
      exact lookup_of_mem l k v hn.2 h

theorem filterMap_range'_eq {β : Type} : ∀ (l : List β) (g : Nat → Option β) (s : Nat),
    (∀ i (h : i < l.length), g (s + i) = some l[i]) → (range' s l.length).filterMap g = l
  | [], _, _, _ => rfl
  | a :: l, g, s, h => by
    have h0 : g s = some a := by
      have := h 0 (by simp)
      rw [Nat.add_zero] at this
      exact this
    have ih := filterMap_range'_eq l g (s + 1) (fun i hi => by
      have := h (i + 1) (by simpa using hi)
      simpa [Nat.add_assoc, Nat.add_comm 1 i] using this)
    simp only [length_cons, range'_succ, filterMap_cons, h0, ih]

/-- **any arrival order**: whatever permutation of the indexed results reaches the
    result handler, the iterator hands them out in submission order. -/
theorem collect_eq_map {α β : Type} (f : α → β) (xs : List α) (arr : List (Nat × β))
    (h : arr ~ xs.zipIdx.map (fun p => (p.2, f p.1))) : collect xs.length arr = xs.map f := by
  have hkeys : (arr.map Prod.fst).Nodup := by
    refine (h.map Prod.fst).nodup_iff.mpr ?_
    rw [List.map_map]
    have : (Prod.fst ∘ fun p : α × Nat => (p.2, f p.1)) = Prod.snd := rfl
    rw [this, zipIdx_map_snd]
    exact nodup_range' (step := 1) (by omega)
  unfold collect
  rw [range_eq_range']
  have hl : xs.length = (xs.map f).length := by simp
  rw [hl]
  apply filterMap_range'_eq
  intro i hi
  have hi' : i < xs.length := by simpa using hi
  rw [Nat.zero_add]
  apply lookup_of_mem _ _ _ hkeys
  apply h.symm.subset
  refine mem_map.mpr ⟨(xs[i], i), ?_, by simp⟩
  exact mk_mem_zipIdx_iff_getElem?.mpr (by simp [hi'])

theorem flatMap_insert_perm {ι γ : Type} [DecidableEq ι] (a : γ) (F : ι → List γ) (r : ι) :
    ∀ ws : List ι, ws.Nodup → r ∈ ws →
      ws.flatMap (fun w => if r = w then a :: F w else F w) ~ a :: ws.flatMap F
  | [], _, h => by simp at h
  | w :: ws, hn, hr => by
    have hn' := nodup_cons.mp hn
    simp only [flatMap_cons]
    by_cases e : r = w
    · subst e
      have : ws.flatMap (fun w => if r = w then a :: F w else F w) = ws.flatMap F := by
        apply flatMap_congr
        intro w hw
        have : r ≠ w := fun e => hn'.1 (e ▸ hw)
        simp [this]
      simp [this]
    · have hr' : r ∈ ws := by
        rcases mem_cons.mp hr with h | h
        · exact absurd h e
        · exact h
      simp only [e, if_false]
      exact ((flatMap_insert_perm a F r ws hn'.2 hr').append_left (F w)).trans perm_middle

theorem classes_perm {γ : Type} (n : Nat) (cls : γ → Nat) (hc : ∀ a, cls a < n) :
    ∀ L : List γ, (range n).flatMap (fun w => L.filter (fun a => cls a = w)) ~ L
  | [] => by simp
  | a :: L => by
    have ih := classes_perm n cls hc L
    have : (fun w => (a :: L).filter (fun a => cls a = w))
        = (fun w => if cls a = w then a :: L.filter (fun a => cls a = w) else L.filter (fun a => cls a = w)) := by
      funext w
      by_cases e : cls a = w <;> simp [filter_cons, e]
    rw [this]
    exact (flatMap_insert_perm a _ (cls a) (range n) nodup_range (mem_range.mpr (hc a))).trans (ih.cons a)

theorem arrivals_perm {α β : Type} (n : Nat) (hn : 0 < n) (f : α → β) (xs : List α) :
    arrivals n f xs ~ xs.zipIdx.map (fun p => (p.2, f p.1)) := by
  unfold arrivals
  have h := classes_perm n (fun p : α × Nat => p.2 % n) (fun p => Nat.mod_lt _ hn) xs.zipIdx
  have h2 := h.map (fun p : α × Nat => (p.2, f p.1))
  rw [List.map_flatMap] at h2
  exact h2

/-- `Pool(n).imap(f, xs)` is `map f xs` for every `n ≥ 1` -/
theorem imap_eq_map {α β : Type} (n : Nat) (hn : 0 < n) (f : α → β) (xs : List α) :
    imap n f xs = xs.map f :=
  collect_eq_map f xs _ (arrivals_perm n hn f xs)

/-! ## the consumer loop -/

def pieces : JobResult → List Str
  | .lines ls => ls
  | .notFound _ => []

def nfLines : JobResult → List Str
  | .lines _ => []
  | .notFound l => [l]

theorem consume_ok : ∀ js : List JobResult,
    consume (js.map Except.ok) = (js.flatMap pieces, js.flatMap nfLines, none)
  | [] => rfl
  | .lines ls :: js => by simp [consume, consume_ok js, pieces, nfLines]
  | .notFound l :: js => by simp [consume, consume_ok js, pieces, nfLines]

/-- an exception ends the loop: what was written before stays, nothing after -/
theorem consume_error : ∀ (js : List JobResult) (e : Err) (rest : List (Except Err JobResult)),
    consume (js.map Except.ok ++ Except.error e :: rest) = (js.flatMap pieces, js.flatMap nfLines, some e)
  | [], _, _ => rfl
  | .lines ls :: js, e, rest => by simp [consume, consume_error js e rest, pieces, nfLines]
  | .notFound l :: js, e, rest => by simp [consume, consume_error js e rest, pieces, nfLines]

/-! ## `safe_write_path` returns a path that does not exist -/

theorem natStr_inj {a b : Nat} (h : natStr a = natStr b) : a = b := by
  unfold natStr at h
  exact Nat.repr_injective (String.toList_inj.mp h)

theorem candidate_inj (path : Str) {a b : Nat} (h : candidate path a = candidate path b) : a = b := by
  unfold candidate at h
  by_cases ha : a = 0 <;> by_cases hb : b = 0
  · omega
  · simp only [ha, hb, if_true, if_false] at h
    have := congrArg List.length h
    simp at this
  · simp only [ha, hb, if_true, if_false] at h
    have := congrArg List.length h
    simp at this
  · simp only [ha, hb, if_false] at h
    exact natStr_inj (List.cons.inj (List.append_cancel_left h)).2

theorem find_range_first (p : Nat → Bool) : ∀ n k, (range n).find? p = some k → ∀ j < k, p j = false
  | 0, k, h, _, _ => by simp at h
  | n + 1, k, h, j, hj => by
    rw [range_succ, find?_append] at h
    cases hn : (range n).find? p with
    | some k' =>
      rw [hn] at h
      have : k' = k := by simpa using h
      subst this
      exact find_range_first p n k' hn j hj
    | none =>
      rw [hn] at h
      have hk : k = n := by
        have h' : find? p [n] = some k := by simpa using h
        exact (mem_singleton.mp (mem_of_find?_eq_some h'))
      have := find?_eq_none.mp hn j (mem_range.mpr (hk ▸ hj))
      simpa using this

theorem safeWritePath_spec (existing : List Str) (path : Str) :
    ∃ k, safeWritePath existing path = candidate path k ∧ candidate path k ∉ existing ∧
      ∀ j < k, candidate path j ∈ existing := by
  unfold safeWritePath
  cases hf : (range (existing.length + 1)).find? (fun k => !existing.contains (candidate path k)) with
  | some k =>
    refine ⟨k, rfl, ?_, ?_⟩
    · have := find?_some hf
      simpa using this
    · intro j hj
      have := find_range_first _ _ _ hf j hj
      simpa using this
  | none =>
    exfalso
    have hall := find?_eq_none.mp hf
    have hsub : (range (existing.length + 1)).map (candidate path) ⊆ existing := by
      intro c hc
      obtain ⟨k, hk, rfl⟩ := mem_map.mp hc
      have := hall k hk
      simpa using this
    have hnd : ((range (existing.length + 1)).map (candidate path)).Nodup :=
      nodup_range.map (fun a b h => candidate_inj path h)
    have := (hnd.subperm hsub).length_le
    simp at this
    omega

theorem safeWritePath_fresh (existing : List Str) (path : Str) : safeWritePath existing path ∉ existing := by
  obtain ⟨k, hk, hfree, _⟩ := safeWritePath_spec existing path
  rw [hk]; exact hfree

theorem safeWritePath_length (existing : List Str) (path : Str) :
    path.length ≤ (safeWritePath existing path).length := by
  obtain ⟨k, hk, _, _⟩ := safeWritePath_spec existing path
  rw [hk]; unfold candidate; split <;> simp

/-! ## `create_corpus_from_gz` -/

/-- the lines one entry contributes to the corpus: the cleaned sentences and the
    end-of-document marker for a readable document, nothing otherwise -/
def docPieces (cfg : Cfg) : Entry → List Str
  | .doc d =>
    match readClean cfg d with
    | .ok ls => ls ++ [cfg.marker]
    | .error _ => []
  | _ => []

def isDangling : Entry → Bool
  | .dangling => true
  | _ => false

/-- a path the run can deal with: a document that parses, or a missing file -/
def readable (cfg : Cfg) : Entry → Bool
  | .dangling => true
  | .doc d =>
    match readClean cfg d with
    | .ok _ => true
    | .error _ => false
  | _ => false

/-- the line one entry contributes to the `.not_found` file -/
def nfLine (p : Str × Entry) : List Str := if isDangling p.2 then [p.1 ++ ['\n']] else []

def jobD (cfg : Cfg) (p : Str × Entry) : JobResult :=
  match runJob cfg p.1 p.2 with
  | .ok j => j
  | .error _ => .lines []

theorem runJob_readable (cfg : Cfg) (p : Str × Entry) (h : readable cfg p.2 = true) :
    runJob cfg p.1 p.2 = .ok (jobD cfg p) ∧ pieces (jobD cfg p) = docPieces cfg p.2 ∧
      nfLines (jobD cfg p) = nfLine p := by
  obtain ⟨path, e⟩ := p
  cases e with
  | dangling => simp [runJob, jobD, pieces, nfLines, docPieces, nfLine, isDangling]
  | doc d =>
    simp only [readable] at h
    cases hr : readClean cfg d with
    | ok ls => simp [runJob, jobD, hr, pieces, nfLines, docPieces, nfLine, isDangling]
    | error e => rw [hr] at h; exact Bool.noConfusion h
  | notGzip => exact Bool.noConfusion h
  | dir => exact Bool.noConfusion h

theorem runJob_unreadable (cfg : Cfg) (p : Str × Entry) (h : readable cfg p.2 = false) :
    ∃ e, runJob cfg p.1 p.2 = .error e := by
  obtain ⟨path, e⟩ := p
  cases e with
  | dangling => exact Bool.noConfusion h
  | doc d =>
    simp only [readable] at h
    cases hr : readClean cfg d with
    | ok ls => rw [hr] at h; exact Bool.noConfusion h
    | error e => exact ⟨e, by simp [runJob, hr]⟩
  | notGzip => exact ⟨.io, rfl⟩
  | dir => exact ⟨.io, rfl⟩

/-- the outcome of a run that gets past the guards, in closed form -/
def okOutcome (cfg : Cfg) (outfile : Str) (w : World) (gz : List (Str × Entry)) : Outcome :=
  ⟨none, some (gz.flatMap (fun p => docPieces cfg p.2)),
    if gz.flatMap nfLine = [] then none
    else some (safeWritePath w.files (outfile ++ notFoundSuffix), gz.flatMap nfLine)⟩

theorem createCorpus_guards (cfg : Cfg) (n : Nat) (directory outfile : Str) (w : World)
    (tree : List (Str × Entry)) (hd : w.dirExists = true) (ho : outfile ∉ w.files) (hn : 0 < n) :
    createCorpus cfg n directory outfile w tree =
      match consume ((gzFiles directory tree).map (fun p => runJob cfg p.1 p.2)) with
      | (written, _, some e) => ⟨some e, some written, none⟩
      | (written, nf, none) =>
        ⟨none, some written,
          if nf = [] then none
          else some (safeWritePath w.files (outfile ++ notFoundSuffix), nf)⟩ := by
  unfold createCorpus
  have h1 : (!w.dirExists) = false := by simp [hd]
  have h2 : w.files.contains outfile = false := by simpa using ho
  have h3 : ¬ n = 0 := by omega
  simp only [h1, h2, h3, if_false, imap_eq_map n hn, Bool.false_eq_true]
  rfl

theorem createCorpus_ok (cfg : Cfg) (n : Nat) (directory outfile : Str) (w : World)
    (tree : List (Str × Entry)) (hd : w.dirExists = true) (ho : outfile ∉ w.files) (hn : 0 < n)
    (hr : ∀ p ∈ gzFiles directory tree, readable cfg p.2 = true) :
    createCorpus cfg n directory outfile w tree = okOutcome cfg outfile w (gzFiles directory tree) := by
  rw [createCorpus_guards cfg n directory outfile w tree hd ho hn]
  have hmap : (gzFiles directory tree).map (fun p => runJob cfg p.1 p.2)
      = ((gzFiles directory tree).map (jobD cfg)).map Except.ok := by
    rw [List.map_map]
    apply map_congr_left
    intro p hp
    exact (runJob_readable cfg p (hr p hp)).1
  have hp : ((gzFiles directory tree).map (jobD cfg)).flatMap pieces
      = (gzFiles directory tree).flatMap (fun p => docPieces cfg p.2) := by
    rw [List.flatMap_map]
    apply flatMap_congr
    intro p hp
    exact (runJob_readable cfg p (hr p hp)).2.1
  have hnf : ((gzFiles directory tree).map (jobD cfg)).flatMap nfLines
      = (gzFiles directory tree).flatMap nfLine := by
    rw [List.flatMap_map]
    apply flatMap_congr
    intro p hp
    exact (runJob_readable cfg p (hr p hp)).2.2
  rw [hmap, consume_ok, hp, hnf]
  rfl

/-- first unreadable file: the exception propagates, the corpus holds exactly
    the documents before it (in sorted order), no `.not_found` file is written -/
theorem createCorpus_error (cfg : Cfg) (n : Nat) (directory outfile : Str) (w : World)
    (tree : List (Str × Entry)) (hd : w.dirExists = true) (ho : outfile ∉ w.files) (hn : 0 < n)
    (pre post : List (Str × Entry)) (p : Str × Entry) (hs : gzFiles directory tree = pre ++ p :: post)
    (hr : ∀ q ∈ pre, readable cfg q.2 = true) (hp : readable cfg p.2 = false) :
    ∃ e, createCorpus cfg n directory outfile w tree
      = ⟨some e, some (pre.flatMap (fun q => docPieces cfg q.2)), none⟩ := by
  obtain ⟨e, he⟩ := runJob_unreadable cfg p hp
  refine ⟨e, ?_⟩
  rw [createCorpus_guards cfg n directory outfile w tree hd ho hn, hs]
  have hmap : (pre ++ p :: post).map (fun p => runJob cfg p.1 p.2)
      = (pre.map (jobD cfg)).map Except.ok ++ Except.error e :: post.map (fun p => runJob cfg p.1 p.2) := by
    rw [List.map_append, List.map_cons, he, List.map_map]
    congr 1
    apply map_congr_left
    intro q hq
    exact (runJob_readable cfg q (hr q hq)).1
  have hpc : (pre.map (jobD cfg)).flatMap pieces = pre.flatMap (fun q => docPieces cfg q.2) := by
    rw [List.flatMap_map]
    apply flatMap_congr
    intro q hq
    exact (runJob_readable cfg q (hr q hq)).2.1
  rw [hmap, consume_error, hpc]

theorem flatMap_nfLine_eq (gz : List (Str × Entry)) :
    gz.flatMap nfLine = (gz.filter (fun p => isDangling p.2)).map (fun p => p.1 ++ ['\n']) := by
  induction gz with
  | nil => rfl
  | cons p gz ih =>
    by_cases h : isDangling p.2 = true
    · simp [flatMap_cons, nfLine, h, filter_cons, ← ih]
    · simp [flatMap_cons, nfLine, h, filter_cons, ← ih]

theorem docPieces_dangling (cfg : Cfg) {e : Entry} (h : isDangling e = true) : docPieces cfg e = [] := by
  cases e <;> first | rfl | exact Bool.noConfusion h

theorem flatMap_docPieces_filter (cfg : Cfg) (gz : List (Str × Entry)) :
    gz.flatMap (fun p => docPieces cfg p.2)
      = (gz.filter (fun p => !isDangling p.2)).flatMap (fun p => docPieces cfg p.2) := by
  induction gz with
  | nil => rfl
  | cons p gz ih =>
    by_cases h : isDangling p.2 = true
    · simp only [flatMap_cons, filter_cons, h, Bool.not_true, Bool.false_eq_true, if_false,
        docPieces_dangling cfg h, List.nil_append, ih]
    · have h' : isDangling p.2 = false := by simpa using h
      simp only [flatMap_cons, filter_cons, h', Bool.not_false, if_true, ih]

end Corpus
end Pyndl
