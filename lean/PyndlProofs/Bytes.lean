import PyndlModel.Bytes
import PyndlModel.Generated
import Mathlib.Tactic.Ring

set_option linter.unusedSectionVars false
set_option linter.unusedSimpArgs false

namespace Pyndl
open List

theorem readU32le_u32le (n : Nat) (h : n < 4294967296) (rest : Bytes) :
    readU32le (u32le n ++ rest) = some (n, rest) := by
  simp only [u32le, List.cons_append, List.nil_append, readU32le, UInt8.toNat_ofNat']
  congr 2
  omega

def Ids32 (ids : List Nat) : Prop := ∀ i ∈ ids, i < 4294967296

theorem readU32s_encode (ids : List Nat) (h : Ids32 ids) (rest : Bytes) :
    readU32s ids.length (ids.flatMap u32le ++ rest) = some (ids, rest) := by
  induction ids with
  | nil => simp [readU32s]
  | cons i ids ih =>
    have hi : i < 4294967296 := h i (by simp)
    have hr : Ids32 ids := fun x hx => h x (by simp [hx])
    simp only [List.length_cons, List.flatMap_cons, List.append_assoc, readU32s,
      readU32le_u32le i hi, ih hr]

/-- well-formedness for the 32-bit format: what `int.to_bytes(4, 'little')`
    accepts (it raises OverflowError otherwise) -/
structure EventWf (e : Event Nat Nat) : Prop where
  cues : Ids32 e.cues
  outcomes : Ids32 e.outcomes
  ncues : e.cues.length < 4294967296
  nouts : e.outcomes.length < 4294967296

def Wf32 (es : List (Event Nat Nat)) : Prop := ∀ e ∈ es, EventWf e

/-- a DECIDABLE sufficient condition for `Wf32` (used by the non-vacuity examples):
    every id and every per-event count is below some `b ≤ 2³²` -/
theorem wf32_of_bound (b : Nat) (hb : b ≤ 4294967296) (es : List (Event Nat Nat))
    (h : ∀ e ∈ es, (∀ i ∈ e.cues, i < b) ∧ (∀ i ∈ e.outcomes, i < b) ∧ e.cues.length < b ∧ e.outcomes.length < b) :
    Wf32 es := by
  intro e he
  obtain ⟨h1, h2, h3, h4⟩ := h e he
  exact ⟨fun i hi => by have := h1 i hi; omega, fun i hi => by have := h2 i hi; omega, by omega, by omega⟩

theorem decodeEvents_encode (es : List (Event Nat Nat)) (h : Wf32 es) (rest : Bytes) :
    decodeEvents es.length (es.flatMap encodeEvent ++ rest) = some (es, rest) := by
  induction es with
  | nil => simp [decodeEvents]
  | cons e es ih =>
    have he := h e (by simp)
    have hr : Wf32 es := fun x hx => h x (by simp [hx])
    simp only [List.length_cons, List.flatMap_cons, decodeEvents, encodeEvent, encodeIds,
      List.append_assoc]
    rw [readU32le_u32le _ he.ncues]
    simp only [readU32s_encode e.cues he.cues]
    rw [readU32le_u32le _ he.nouts]
    simp only [readU32s_encode e.outcomes he.outcomes, ih hr]

/-- **round trip**: the Python reader returns exactly the events written -/
theorem decodeChunkPy_encodeChunk (magic version : Nat) (hm : magic < 4294967296)
    (hv : version < 4294967296) (es : List (Event Nat Nat)) (hn : es.length < 4294967296)
    (h : Wf32 es) : decodeChunkPy magic version (encodeChunk magic version es) = .ok es := by
  unfold decodeChunkPy encodeChunk encodeChunkWith
  simp only [List.append_assoc]
  rw [readU32le_u32le _ hm]
  simp only [ne_eq, not_true_eq_false, if_false]
  rw [readU32le_u32le _ hv]
  simp only [ne_eq, not_true_eq_false, if_false]
  rw [readU32le_u32le _ hn]
  have := decodeEvents_encode es h []
  simp only [List.append_nil] at this
  simp only [this]

/-- the kernels' reader reads the same events as the Python reader from every
    byte string, and never reads a block longer than its buffer -/
theorem decodeEventsKernel_eq (n capC capO : Nat) (bs : Bytes) :
    (decodeEventsKernel n capC capO bs).map (·.1) = (decodeEvents n bs).map (·.1) := by
  induction n generalizing capC capO bs with
  | zero => simp [decodeEventsKernel, decodeEvents]
  | succ n ih =>
    simp only [decodeEventsKernel, decodeEvents]
    cases h1 : readU32le bs with
    | none => simp
    | some p1 =>
      obtain ⟨nc, bs1⟩ := p1
      simp only
      cases h2 : readU32s nc bs1 with
      | none => simp
      | some p2 =>
        obtain ⟨cues, bs2⟩ := p2
        simp only
        cases h3 : readU32le bs2 with
        | none => simp
        | some p3 =>
          obtain ⟨no, bs3⟩ := p3
          simp only
          cases h4 : readU32s no bs3 with
          | none => simp
          | some p4 =>
            obtain ⟨outs, bs4⟩ := p4
            simp only
            have := ih (if nc > capC then nc else capC) (if no > capO then no else capO) bs4
            cases h5 : decodeEventsKernel n (if nc > capC then nc else capC) (if no > capO then no else capO) bs4 with
            | none =>
              rw [h5] at this
              cases h6 : decodeEvents n bs4 with
              | none => simp
              | some _ => rw [h6] at this; simp at this
            | some r =>
              rw [h5] at this
              cases h6 : decodeEvents n bs4 with
              | none => rw [h6] at this; simp at this
              | some r' =>
                rw [h6] at this
                simp only [Option.map_some, Option.some.injEq] at this
                simp [this]

theorem decodeEventsKernel_cap (n capC capO : Nat) (bs : Bytes) (es : List (Event Nat Nat))
    (hist : List (Nat × Nat)) (h : decodeEventsKernel n capC capO bs = some (es, hist)) :
    ∀ p ∈ hist, p.1 ≤ p.2 := by
  induction n generalizing capC capO bs es hist with
  | zero => simp [decodeEventsKernel] at h; obtain ⟨_, rfl⟩ := h; simp
  | succ n ih =>
    simp only [decodeEventsKernel] at h
    split at h
    · cases h
    · rename_i nc bs1 _
      split at h
      · cases h
      · rename_i cues bs2 _
        split at h
        · cases h
        · rename_i no bs3 _
          split at h
          · cases h
          · rename_i outs bs4 _
            split at h
            · cases h
            · rename_i es' hist' h5
              simp only [Option.some.injEq, Prod.mk.injEq] at h
              obtain ⟨_, rfl⟩ := h
              intro p hp
              simp only [List.mem_cons] at hp
              rcases hp with rfl | rfl | hp
              · simp only; split <;> omega
              · simp only; split <;> omega
              · exact ih _ _ _ _ _ h5 p hp

theorem decodeChunkKernel_eq_py (magic version : Nat) (bs : Bytes) :
    (decodeChunkKernel magic version bs).map (·.1) = decodeChunkPy magic version bs := by
  unfold decodeChunkKernel decodeChunkPy
  cases h1 : readU32le bs with
  | none => rfl
  | some p1 =>
    obtain ⟨m, bs1⟩ := p1
    simp only
    by_cases hm : m ≠ magic
    · simp [hm]; rfl
    · simp only [hm, if_false]
      cases h2 : readU32le bs1 with
      | none => rfl
      | some p2 =>
        obtain ⟨v, bs2⟩ := p2
        simp only
        by_cases hv : v ≠ version
        · simp [hv]; rfl
        · simp only [hv, if_false]
          cases h3 : readU32le bs2 with
          | none => rfl
          | some p3 =>
            obtain ⟨n, bs3⟩ := p3
            simp only
            have := decodeEventsKernel_eq n 1024 1024 bs3
            cases h4 : decodeEventsKernel n 1024 1024 bs3 with
            | none =>
              rw [h4] at this
              cases h5 : decodeEvents n bs3 with
              | none => rfl
              | some _ => rw [h5] at this; simp at this
            | some r =>
              rw [h4] at this
              cases h5 : decodeEvents n bs3 with
              | none => rw [h5] at this; simp at this
              | some r' =>
                rw [h5] at this
                simp only [Option.map_some, Option.some.injEq] at this
                simp [Except.map, this]

theorem length_u32le (n : Nat) : (u32le n).length = 4 := rfl

theorem length_encodeIds (ids : List Nat) : (encodeIds ids).length = 4 + 4 * ids.length := by
  unfold encodeIds
  induction ids with
  | nil => rfl
  | cons i ids ih =>
    simp only [List.flatMap_cons, List.length_append, length_u32le, List.length_cons] at *
    omega

/-- `12 + Σ (8 + 4(|cues| + |outcomes|))` bytes -/
theorem length_encodeChunk (magic version : Nat) (es : List (Event Nat Nat)) :
    (encodeChunk magic version es).length = encodedSize es := by
  unfold encodeChunk encodeChunkWith encodedSize
  simp only [List.length_append, length_u32le]
  have : (es.flatMap encodeEvent).length
      = (es.map (fun e => 8 + 4 * (e.cues.length + e.outcomes.length))).sum := by
    induction es with
    | nil => rfl
    | cons e es ih =>
      simp only [List.flatMap_cons, List.length_append, List.map_cons, List.sum_cons, ih,
        encodeEvent, length_encodeIds]
      omega
  omega

/-- the 64-bit flat index never wraps for 32-bit operands -/
theorem flatIndex64_exact (n o c : UInt32) :
    (flatIndex64 n o c).toNat = n.toNat * o.toNat + c.toNat := by
  unfold flatIndex64
  have hn := n.toNat_lt
  have ho := o.toNat_lt
  have hc := c.toNat_lt
  rw [UInt64.toNat_add, UInt64.toNat_mul]
  simp only [UInt32.toNat_toUInt64]
  have h1 : n.toNat * o.toNat ≤ 4294967295 * 4294967295 :=
    Nat.mul_le_mul (by omega) (by omega)
  have h2 : n.toNat * o.toNat % 2 ^ 64 = n.toNat * o.toNat := Nat.mod_eq_of_lt (by omega)
  rw [h2]
  exact Nat.mod_eq_of_lt (by omega)

end Pyndl

namespace Pyndl
open List

/-- a chunk whose header is not (magic, version) is rejected by the kernels' reader -/
theorem bad_header_is_error (magic version m' v' : Nat) (hm' : m' < 4294967296) (hv' : v' < 4294967296)
    (hne : m' ≠ magic ∨ v' ≠ version) (rest : Bytes) :
    decodeChunkKernel magic version (u32le m' ++ (u32le v' ++ rest)) = .error .badMagic ∨
    decodeChunkKernel magic version (u32le m' ++ (u32le v' ++ rest)) = .error .badVersion := by
  unfold decodeChunkKernel
  rw [readU32le_u32le _ hm']
  by_cases hm : m' = magic
  · subst hm
    simp only [ne_eq, not_true_eq_false, if_false]
    rw [readU32le_u32le _ hv']
    have hv : v' ≠ version := by rcases hne with h | h; exact absurd rfl h; exact h
    right; simp [hv]
  · left; simp [hm]

/-- same for the Python reader -/
theorem bad_header_is_error_py (magic version m' v' : Nat) (hm' : m' < 4294967296) (hv' : v' < 4294967296)
    (hne : m' ≠ magic ∨ v' ≠ version) (rest : Bytes) :
    ∃ e, decodeChunkPy magic version (u32le m' ++ (u32le v' ++ rest)) = .error e := by
  rw [← decodeChunkKernel_eq_py]
  rcases bad_header_is_error magic version m' v' hm' hv' hne rest with h | h <;> rw [h] <;>
    exact ⟨_, rfl⟩

theorem learnChunks_bad {σ : Type} (magic version : Nat) (learnFile : σ → List (Event Nat Nat) → σ)
    (pre : List Bytes) (preEs : List (List (Event Nat Nat)))
    (hpre : List.Forall₂ (fun f es => ∃ h, decodeChunkKernel magic version f = .ok (es, h)) pre preEs)
    (bad : Bytes) (e : ReadErr) (hbad : decodeChunkKernel magic version bad = .error e)
    (post : List Bytes) (w : σ) :
    learnChunks magic version learnFile (pre ++ bad :: post) w = (preEs.foldl learnFile w, some e) := by
  induction hpre generalizing w with
  | nil => simp [learnChunks, hbad]
  | cons h _ ih =>
    obtain ⟨hh, hd⟩ := h
    simp only [List.cons_append, learnChunks, hd, List.foldl_cons]
    exact ih _

theorem learnChunks_good {σ : Type} (magic version : Nat) (learnFile : σ → List (Event Nat Nat) → σ)
    (files : List Bytes) (ess : List (List (Event Nat Nat)))
    (h : List.Forall₂ (fun f es => ∃ h, decodeChunkKernel magic version f = .ok (es, h)) files ess)
    (w : σ) : learnChunks magic version learnFile files w = (ess.foldl learnFile w, none) := by
  induction h generalizing w with
  | nil => rfl
  | cons h _ ih =>
    obtain ⟨hh, hd⟩ := h
    simp only [learnChunks, hd, List.foldl_cons]
    exact ih _

end Pyndl

namespace Pyndl
open List

/-! ## the two binary-to-binary entry points as called; the readers on complete byte strings -/

/-- **empty file list ⇒ `IOError`** (the entry point's `INITIAL_ERROR_CODE` is never
    overwritten), weights untouched -/
theorem learnChunksB2B_nil {σ : Type} (magic version : Nat) (learnFile : σ → List (Event Nat Nat) → σ) (w : σ) :
    learnChunksB2B magic version learnFile [] w = (w, some .noFile) := rfl

theorem learnChunksB2B_of_ne_nil {σ : Type} (magic version : Nat) (learnFile : σ → List (Event Nat Nat) → σ)
    (files : List Bytes) (h : files ≠ []) (w : σ) :
    learnChunksB2B magic version learnFile files w = learnChunks magic version learnFile files w := by
  cases files with
  | nil => exact absurd rfl h
  | cons f fs => rfl

/-- whenever the (model of the) Python reader reads a byte string completely,
    the kernels' reader reads the same events from it -/
theorem decodeChunkKernel_of_py_ok (magic version : Nat) (bs : Bytes) (es : List (Event Nat Nat))
    (h : decodeChunkPy magic version bs = .ok es) :
    ∃ hist, decodeChunkKernel magic version bs = .ok (es, hist) := by
  have := decodeChunkKernel_eq_py magic version bs
  rw [h] at this
  cases hk : decodeChunkKernel magic version bs with
  | error e => rw [hk] at this; cases this
  | ok r =>
    rw [hk] at this
    simp only [Except.map, Except.ok.injEq] at this
    exact ⟨r.2, by rw [← this]⟩

/-- … and conversely -/
theorem decodeChunkPy_of_kernel_ok (magic version : Nat) (bs : Bytes) (es : List (Event Nat Nat))
    (hist : List (Nat × Nat)) (h : decodeChunkKernel magic version bs = .ok (es, hist)) :
    decodeChunkPy magic version bs = .ok es := by
  rw [← decodeChunkKernel_eq_py, h]; rfl

/-- the two readers reject the same headers with the same verdict -/
theorem decodeChunk_error_iff (magic version : Nat) (bs : Bytes) (e : ReadErr) :
    decodeChunkKernel magic version bs = .error e ↔ decodeChunkPy magic version bs = .error e := by
  have := decodeChunkKernel_eq_py magic version bs
  cases hk : decodeChunkKernel magic version bs with
  | error e' =>
    rw [hk] at this
    simp only [Except.map] at this
    rw [← this]
    constructor <;> intro h <;> cases h <;> rfl
  | ok r =>
    rw [hk] at this
    simp only [Except.map] at this
    rw [← this]
    constructor <;> intro h <;> cases h

/-- the readers never report `noFile` (that is the entry points' verdict on an
    empty LIST of files) -/
theorem decodeChunkKernel_ne_noFile (magic version : Nat) (bs : Bytes) :
    decodeChunkKernel magic version bs ≠ .error .noFile := by
  unfold decodeChunkKernel
  intro h
  repeat' split at h
  all_goals cases h

end Pyndl
