/-
  PyndlProofs.QueueSchedule — the work-queue PROTOCOL composed with the
  SCHEDULES (C02).

  * `rRun_erase` / `qRun_lift`: the refined system `rStep` (PyndlModel/Queue.lean:
    the protocol with thread-local kernel program counters) is a refinement of
    the abstract protocol `qStep`, and every run of the abstract protocol is the
    erasure of a refined run (no protocol schedule is excluded).
  * `protocol_run_interleaves`: the steps performed in a complete run in which
    no kernel call failed are an `Interleave` of the part programs — each part
    program runs exactly once.
  * `interleave_of_filter`: the converse of `interleave_filter`, so that
    `ValidThreading ↔ Interleave (threadingPrograms …)`.
  * `InterleaveOpenmpFrom`: per-file `Interleave` characterisation of the
    OpenMP schedules, equivalent to `ValidOpenmpFrom`.
-/
import PyndlProofs.Queue
import PyndlProofs.Interleave

set_option linter.unusedSectionVars false
set_option linter.unusedSimpArgs false
set_option linter.unusedVariables false

namespace Pyndl
open List

/-! ## `Interleave` from the projections (converse of `interleave_filter`) -/

theorem interleave_of_filter {α : Type} (tag : α → Nat) : ∀ (s : List α) (ps : List (List α)),
    (∀ a ∈ s, tag a < ps.length) →
    (∀ k, k < ps.length → s.filter (fun a => tag a = k) = ps.getD k []) →
    Interleave ps s
  | [], ps, _, h2 => by
    refine Interleave.done ?_
    intro q hq
    obtain ⟨k, hk, rfl⟩ := List.getElem_of_mem hq
    have := h2 k hk
    rw [List.getD_eq_getElem?_getD, List.getElem?_eq_getElem hk] at this
    simpa using this.symm
  | a :: s, ps, h1, h2 => by
    have hi : tag a < ps.length := h1 a List.mem_cons_self
    have hpi := h2 (tag a) hi
    simp only [List.filter_cons, decide_true, if_true] at hpi
    have hget : ps[tag a]? = some (a :: s.filter (fun b => tag b = tag a)) := by
      rw [List.getD_eq_getElem?_getD, List.getElem?_eq_getElem hi] at hpi
      rw [List.getElem?_eq_getElem hi]
      simpa using hpi.symm
    refine Interleave.step (tag a) a _ s hget ?_
    apply interleave_of_filter tag s
    · intro b hb
      rw [List.length_set]
      exact h1 b (List.mem_cons_of_mem _ hb)
    · intro k hk
      rw [List.length_set] at hk
      by_cases hki : tag a = k
      · subst hki
        rw [List.getD_eq_getElem?_getD, List.getElem?_set_self hi]
        rfl
      · have := h2 k hk
        simp only [List.filter_cons, hki, decide_false, Bool.false_eq_true, if_false] at this
        rw [this, List.getD_eq_getElem?_getD, List.getD_eq_getElem?_getD, List.getElem?_set_ne hki]

/-! ## the refined protocol refines the abstract one -/

section Refine
variable {α : Type}

theorem erase_getElem? (l : List (RThread α)) (t : Nat) :
    (l.map RThread.erase)[t]? = (l[t]?).map RThread.erase := List.getElem?_map

/-- one refined transition is one transition of the abstract protocol, or (for
    `micro`) none at all -/
theorem rStep_erase (prog : Nat → List α) (s s' : RState α) (a : RAction) (o : Option α)
    (h : rStep prog s a = some (s', o)) :
    match a.erase with
    | some qa => qStep s.erase qa = some s'.erase
    | none => s'.erase = s.erase := by
  cases a with
  | take t =>
    simp only [rStep] at h
    split at h
    · rename_i p rest ht hq
      simp only [Option.some.injEq, Prod.mk.injEq] at h
      obtain ⟨rfl, _⟩ := h
      simp [RAction.erase, qStep, RState.erase, erase_getElem?, ht, hq, List.map_set, RThread.erase]
    · cases h
  | exit t =>
    simp only [rStep] at h
    split at h
    · rename_i ht hq
      simp only [Option.some.injEq, Prod.mk.injEq] at h
      obtain ⟨rfl, _⟩ := h
      simp [RAction.erase, qStep, RState.erase, erase_getElem?, ht, hq, List.map_set, RThread.erase]
    · cases h
  | micro t =>
    simp only [rStep] at h
    split at h
    · rename_i p a rest ht
      simp only [Option.some.injEq, Prod.mk.injEq] at h
      obtain ⟨rfl, _⟩ := h
      simp only [RAction.erase, RState.erase, List.map_set, RThread.erase]
      congr 1
      apply List.ext_getElem?
      intro u
      by_cases hu : t = u
      · subst hu
        by_cases hlt : t < (s.threads.map RThread.erase).length
        · rw [List.getElem?_set_self hlt, erase_getElem?, ht]; rfl
        · rw [List.getElem?_eq_none (by simp at hlt ⊢; omega),
            List.getElem?_eq_none (by simp at hlt ⊢; omega)]
      · rw [List.getElem?_set_ne hu]
    · cases h
  | finish t =>
    simp only [rStep] at h
    split at h
    · rename_i p ht
      simp only [Option.some.injEq, Prod.mk.injEq] at h
      obtain ⟨rfl, _⟩ := h
      simp [RAction.erase, qStep, RState.erase, erase_getElem?, ht, List.map_set, RThread.erase]
    · cases h
  | fail t =>
    simp only [rStep] at h
    split at h
    · rename_i p rest ht
      simp only [Option.some.injEq, Prod.mk.injEq] at h
      obtain ⟨rfl, _⟩ := h
      simp [RAction.erase, qStep, RState.erase, erase_getElem?, ht, List.map_set, RThread.erase]
    · cases h

/-- **refinement**: forgetting the program counters and the `micro` actions turns
    every run of the refined system into a run of the work-queue protocol -/
theorem rRun_erase (prog : Nat → List α) : ∀ (as : List RAction) (s s' : RState α) (out : List α),
    rRun prog s as = some (s', out) → qRun s.erase (as.filterMap RAction.erase) = some s'.erase
  | [], s, s', out, h => by
    simp only [rRun, Option.some.injEq, Prod.mk.injEq] at h
    rw [← h.1]; rfl
  | a :: as, s, s', out, h => by
    simp only [rRun] at h
    cases hs : rStep prog s a with
    | none => rw [hs] at h; cases h
    | some r =>
      obtain ⟨s1, o⟩ := r
      rw [hs] at h
      simp only at h
      cases hr : rRun prog s1 as with
      | none => rw [hr] at h; cases h
      | some r2 =>
        obtain ⟨s2, out1⟩ := r2
        rw [hr] at h
        simp only [Option.some.injEq, Prod.mk.injEq] at h
        obtain ⟨rfl, _⟩ := h
        have ih := rRun_erase prog as s1 s2 out1 hr
        have h1 := rStep_erase prog s s1 a o hs
        cases ha : a.erase with
        | none =>
          rw [ha] at h1
          simp only at h1
          rw [List.filterMap_cons, ha, ← h1]
          exact ih
        | some qa =>
          rw [ha] at h1
          simp only at h1
          rw [List.filterMap_cons, ha]
          simp only [qRun, h1]
          exact ih

end Refine

/-! ## a complete run performs an interleaving of the part programs -/

section Compose
variable {α : Type}

theorem append_cons_eq_range {l r : List Nat} {k p : Nat} (h : l ++ k :: r = List.range p) :
    k = l.length ∧ l.length < p := by
  have hlen : l.length < (l ++ k :: r).length := by simp
  have h1 : (l ++ k :: r)[l.length]? = some k := by
    rw [List.getElem?_append_right (Nat.le_refl _)]; simp
  rw [h] at h1 hlen
  rw [List.length_range] at hlen
  rw [List.getElem?_range hlen] at h1
  exact ⟨(Option.some.inj h1).symm, hlen⟩

theorem getElem?_set_of_some {β : Type} (l : List β) (t u : Nat) (x y z : β) (ht : l[t]? = some y) :
    (l.set t x)[u]? = some z ↔ (u = t ∧ z = x) ∨ (u ≠ t ∧ l[u]? = some z) := by
  have hlt : t < l.length := by
    by_contra hn
    rw [List.getElem?_eq_none (by omega)] at ht; cases ht
  by_cases hu : t = u
  · subst hu
    rw [List.getElem?_set_self hlt]
    constructor
    · intro h; exact Or.inl ⟨rfl, (Option.some.inj h).symm⟩
    · rintro (⟨_, rfl⟩ | ⟨h, _⟩)
      · rfl
      · exact absurd rfl h
  · rw [List.getElem?_set_ne hu]
    constructor
    · intro h; exact Or.inr ⟨fun e => hu e.symm, h⟩
    · rintro (⟨h, _⟩ | ⟨_, h⟩)
      · exact absurd h.symm hu
      · exact h

/-- the relation between a state of the refined protocol and the remaining
    programs of the parts `0 … p-1`: parts not yet handed out have their whole
    program, a part some worker is running has that worker's remaining program,
    a part whose kernel call has returned has nothing left; no part is run by
    two workers -/
structure Sim (prog : Nat → List α) (p : Nat) (s : RState α) (ps : List (List α)) : Prop where
  len : ps.length = p
  conserve : s.taken ++ s.queue = List.range p
  done_empty : (∃ t : Nat, s.threads[t]? = some RThread.done) → s.queue = []
  fresh : ∀ k, s.taken.length ≤ k → k < p → ps[k]? = some (prog k)
  held : ∀ (t k : Nat) rest, s.threads[t]? = some (RThread.running k rest) → k < s.taken.length ∧ ps[k]? = some rest
  idle : ∀ k, k < s.taken.length → (∀ (t : Nat) rest, s.threads[t]? ≠ some (RThread.running k rest)) → ps[k]? = some []
  uniq : ∀ (t t' k : Nat) r r', s.threads[t]? = some (RThread.running k r) →
    s.threads[t']? = some (RThread.running k r') → t = t'

theorem sim_init (prog : Nat → List α) (p t : Nat) :
    Sim prog p (rInit p t : RState α) ((List.range p).map prog) := by
  refine ⟨by simp, by simp [rInit], ?_, ?_, ?_, ?_, ?_⟩
  · rintro ⟨u, hu⟩
    simp only [rInit] at hu
    rw [List.getElem?_replicate] at hu
    split at hu <;> cases hu
  · intro k _ hk
    rw [List.getElem?_map, List.getElem?_range hk]; rfl
  · intro u k rest hu
    simp only [rInit] at hu
    rw [List.getElem?_replicate] at hu
    split at hu <;> cases hu
  · intro k hk
    simp [rInit] at hk
  · intro u u' k r r' hu
    simp only [rInit] at hu
    rw [List.getElem?_replicate] at hu
    split at hu <;> cases hu

theorem taken_le (prog : Nat → List α) (p : Nat) (s : RState α) (ps : List (List α)) (h : Sim prog p s ps) :
    s.taken.length ≤ p := by
  have := congrArg List.length h.conserve
  simp at this; omega

/-- one transition preserves the relation, for the remaining programs updated
    by the step performed, and that step is the head of the program of its part -/
theorem sim_step (prog : Nat → List α) (p : Nat) (s s1 : RState α) (ps : List (List α)) (a : RAction)
    (o : Option α) (hsim : Sim prog p s ps) (hnf : ∀ t, a ≠ .fail t)
    (h : rStep prog s a = some (s1, o)) :
    match o with
    | none => Sim prog p s1 ps
    | some x => ∃ k rest, ps[k]? = some (x :: rest) ∧ Sim prog p s1 (ps.set k rest) := by
  cases a with
  | fail t => exact absurd rfl (hnf t)
  | take t =>
    simp only [rStep] at h
    split at h
    · rename_i k rest ht hq
      simp only [Option.some.injEq, Prod.mk.injEq] at h
      obtain ⟨rfl, rfl⟩ := h
      have hc := hsim.conserve
      rw [hq] at hc
      obtain ⟨hk, hkp⟩ := append_cons_eq_range hc
      refine ⟨hsim.len, by simpa [hq] using hsim.conserve, ?_, ?_, ?_, ?_, ?_⟩
      · rintro ⟨u, hu⟩
        simp only at hu
        rcases (getElem?_set_of_some _ t u _ _ _ ht).mp hu with ⟨_, h2⟩ | ⟨_, h2⟩
        · cases h2
        · have := hsim.done_empty ⟨u, h2⟩
          rw [hq] at this; cases this
      · intro k' hk' hk'p
        simp only [List.length_append, List.length_singleton] at hk'
        exact hsim.fresh k' (by omega) hk'p
      · intro u k' rest' hu
        simp only at hu
        simp only [List.length_append, List.length_singleton]
        rcases (getElem?_set_of_some _ t u _ _ _ ht).mp hu with ⟨_, h2⟩ | ⟨_, h2⟩
        · cases h2
          exact ⟨by omega, hsim.fresh k (by omega) (by omega)⟩
        · obtain ⟨h3, h4⟩ := hsim.held u k' rest' h2
          exact ⟨by omega, h4⟩
      · intro k' hk' hno
        simp only [List.length_append, List.length_singleton] at hk'
        simp only at hno
        by_cases hkk : k' = k
        · exfalso
          subst hkk
          exact hno t (prog k') ((getElem?_set_of_some _ t t _ _ _ ht).mpr (Or.inl ⟨rfl, rfl⟩))
        · apply hsim.idle k' (by omega)
          intro u rest' hu
          have hut : u ≠ t := by
            intro e; subst e; rw [ht] at hu; cases hu
          exact hno u rest' ((getElem?_set_of_some _ t u _ _ _ ht).mpr (Or.inr ⟨hut, hu⟩))
      · intro u u' k' r r' hu hu'
        simp only at hu hu'
        rcases (getElem?_set_of_some _ t u _ _ _ ht).mp hu with ⟨e1, h1⟩ | ⟨n1, h1⟩ <;>
          rcases (getElem?_set_of_some _ t u' _ _ _ ht).mp hu' with ⟨e2, h2⟩ | ⟨n2, h2⟩
        · rw [e1, e2]
        · cases h1
          have := (hsim.held u' k r' h2).1
          omega
        · cases h2
          have := (hsim.held u k r h1).1
          omega
        · exact hsim.uniq u u' k' r r' h1 h2
    · cases h
  | exit t =>
    simp only [rStep] at h
    split at h
    · rename_i ht hq
      simp only [Option.some.injEq, Prod.mk.injEq] at h
      obtain ⟨rfl, rfl⟩ := h
      refine ⟨hsim.len, by simpa [hq] using hsim.conserve, fun _ => rfl, hsim.fresh, ?_, ?_, ?_⟩
      · intro u k' rest' hu
        simp only at hu
        rcases (getElem?_set_of_some _ t u _ _ _ ht).mp hu with ⟨_, h2⟩ | ⟨_, h2⟩
        · cases h2
        · exact hsim.held u k' rest' h2
      · intro k' hk' hno
        simp only at hno
        apply hsim.idle k' hk'
        intro u rest' hu
        have hut : u ≠ t := by
          intro e; subst e; rw [ht] at hu; cases hu
        exact hno u rest' ((getElem?_set_of_some _ t u _ _ _ ht).mpr (Or.inr ⟨hut, hu⟩))
      · intro u u' k' r r' hu hu'
        simp only at hu hu'
        rcases (getElem?_set_of_some _ t u _ _ _ ht).mp hu with ⟨_, h1⟩ | ⟨_, h1⟩
        · cases h1
        rcases (getElem?_set_of_some _ t u' _ _ _ ht).mp hu' with ⟨_, h2⟩ | ⟨_, h2⟩
        · cases h2
        exact hsim.uniq u u' k' r r' h1 h2
    · cases h
  | finish t =>
    simp only [rStep] at h
    split at h
    · rename_i k ht
      simp only [Option.some.injEq, Prod.mk.injEq] at h
      obtain ⟨rfl, rfl⟩ := h
      refine ⟨hsim.len, hsim.conserve, ?_, hsim.fresh, ?_, ?_, ?_⟩
      · rintro ⟨u, hu⟩
        simp only at hu
        rcases (getElem?_set_of_some _ t u _ _ _ ht).mp hu with ⟨_, h2⟩ | ⟨_, h2⟩
        · cases h2
        · exact hsim.done_empty ⟨u, h2⟩
      · intro u k' rest' hu
        simp only at hu
        rcases (getElem?_set_of_some _ t u _ _ _ ht).mp hu with ⟨_, h2⟩ | ⟨_, h2⟩
        · cases h2
        · exact hsim.held u k' rest' h2
      · intro k' hk' hno
        simp only at hno
        by_cases hkk : k' = k
        · subst hkk
          exact (hsim.held t k' [] ht).2
        · apply hsim.idle k' hk'
          intro u rest' hu
          have hut : u ≠ t := by
            intro e; subst e; rw [ht] at hu
            exact hkk (by cases hu; rfl)
          exact hno u rest' ((getElem?_set_of_some _ t u _ _ _ ht).mpr (Or.inr ⟨hut, hu⟩))
      · intro u u' k' r r' hu hu'
        simp only at hu hu'
        rcases (getElem?_set_of_some _ t u _ _ _ ht).mp hu with ⟨_, h1⟩ | ⟨_, h1⟩
        · cases h1
        rcases (getElem?_set_of_some _ t u' _ _ _ ht).mp hu' with ⟨_, h2⟩ | ⟨_, h2⟩
        · cases h2
        exact hsim.uniq u u' k' r r' h1 h2
    · cases h
  | micro t =>
    simp only [rStep] at h
    split at h
    · rename_i k x rest ht
      simp only [Option.some.injEq, Prod.mk.injEq] at h
      obtain ⟨rfl, rfl⟩ := h
      obtain ⟨hkt, hpk⟩ := hsim.held t k (x :: rest) ht
      have hkps : k < ps.length := by
        by_contra hn
        rw [List.getElem?_eq_none (by omega)] at hpk; cases hpk
      refine ⟨k, rest, hpk, ?_⟩
      refine ⟨by rw [List.length_set]; exact hsim.len, hsim.conserve, ?_, ?_, ?_, ?_, ?_⟩
      · rintro ⟨u, hu⟩
        simp only at hu
        rcases (getElem?_set_of_some _ t u _ _ _ ht).mp hu with ⟨_, h2⟩ | ⟨_, h2⟩
        · cases h2
        · exact hsim.done_empty ⟨u, h2⟩
      · intro k' hk' hk'p
        simp only at hk'
        have : k ≠ k' := by omega
        rw [List.getElem?_set_ne this]
        exact hsim.fresh k' hk' hk'p
      · intro u k' rest' hu
        simp only at hu
        rcases (getElem?_set_of_some _ t u _ _ _ ht).mp hu with ⟨_, h2⟩ | ⟨hut, h2⟩
        · cases h2
          exact ⟨hkt, List.getElem?_set_self hkps⟩
        · obtain ⟨h3, h4⟩ := hsim.held u k' rest' h2
          have hkk : k ≠ k' := by
            intro e; subst e
            exact hut (hsim.uniq u t k rest' (x :: rest) h2 ht)
          exact ⟨h3, by rw [List.getElem?_set_ne hkk]; exact h4⟩
      · intro k' hk' hno
        simp only at hno
        have hkk : k ≠ k' := by
          intro e; subst e
          exact hno t rest ((getElem?_set_of_some _ t t _ _ _ ht).mpr (Or.inl ⟨rfl, rfl⟩))
        rw [List.getElem?_set_ne hkk]
        apply hsim.idle k' hk'
        intro u rest' hu
        have hut : u ≠ t := by
          intro e; subst e; rw [ht] at hu
          exact hkk (by cases hu; rfl)
        exact hno u rest' ((getElem?_set_of_some _ t u _ _ _ ht).mpr (Or.inr ⟨hut, hu⟩))
      · intro u u' k' r r' hu hu'
        simp only at hu hu'
        rcases (getElem?_set_of_some _ t u _ _ _ ht).mp hu with ⟨e1, h1⟩ | ⟨n1, h1⟩ <;>
          rcases (getElem?_set_of_some _ t u' _ _ _ ht).mp hu' with ⟨e2, h2⟩ | ⟨n2, h2⟩
        · rw [e1, e2]
        · cases h1
          exact absurd (hsim.uniq u' t k r' (x :: rest) h2 ht) n2
        · cases h2
          exact absurd (hsim.uniq u t k r (x :: rest) h1 ht) n1
        · exact hsim.uniq u u' k' r r' h1 h2
    · cases h

/-- in a state all of whose (at least one) workers have left the loop nothing remains -/
theorem sim_final (prog : Nat → List α) (p : Nat) (s : RState α) (ps : List (List α))
    (hsim : Sim prog p s ps) (hdone : ∀ x ∈ s.threads, x = RThread.done) (hne : s.threads ≠ []) :
    (∀ q ∈ ps, q = []) ∧ s.taken = List.range p := by
  have h0 : s.threads[0]? = some RThread.done := by
    cases hth : s.threads with
    | nil => exact absurd hth hne
    | cons x xs =>
      have := hdone x (by rw [hth]; exact List.mem_cons_self)
      rw [this]; rfl
  have hq := hsim.done_empty ⟨0, h0⟩
  have hc := hsim.conserve
  rw [hq, List.append_nil] at hc
  refine ⟨?_, hc⟩
  intro q hq'
  obtain ⟨k, hk, rfl⟩ := List.getElem_of_mem hq'
  have hkp : k < p := by rw [← hsim.len]; exact hk
  have hkt : k < s.taken.length := by rw [hc, List.length_range]; exact hkp
  have := hsim.idle k hkt (by
    intro t rest ht
    have := hdone _ (List.mem_of_getElem? ht)
    cases this)
  rw [List.getElem?_eq_getElem hk] at this
  exact Option.some.inj this

theorem run_interleave (prog : Nat → List α) (p : Nat) : ∀ (as : List RAction) (s s' : RState α)
    (ps : List (List α)) (out : List α), Sim prog p s ps → (∀ a ∈ as, ∀ t, a ≠ .fail t) →
    rRun prog s as = some (s', out) → (∀ x ∈ s'.threads, x = RThread.done) → s'.threads ≠ [] →
    Interleave ps out ∧ s'.taken = List.range p
  | [], s, s', ps, out, hsim, _, h, hdone, hne => by
    simp only [rRun, Option.some.injEq, Prod.mk.injEq] at h
    obtain ⟨rfl, rfl⟩ := h
    obtain ⟨h1, h2⟩ := sim_final prog p s ps hsim hdone hne
    exact ⟨Interleave.done h1, h2⟩
  | a :: as, s, s', ps, out, hsim, hnf, h, hdone, hne => by
    simp only [rRun] at h
    cases hs : rStep prog s a with
    | none => rw [hs] at h; cases h
    | some r =>
      obtain ⟨s1, o⟩ := r
      rw [hs] at h
      simp only at h
      cases hr : rRun prog s1 as with
      | none => rw [hr] at h; cases h
      | some r2 =>
        obtain ⟨s2, out1⟩ := r2
        rw [hr] at h
        simp only [Option.some.injEq, Prod.mk.injEq] at h
        obtain ⟨rfl, rfl⟩ := h
        have hstep := sim_step prog p s s1 ps a o hsim (hnf a List.mem_cons_self) hs
        have hnf' : ∀ b ∈ as, ∀ t, b ≠ .fail t := fun b hb => hnf b (List.mem_cons_of_mem _ hb)
        cases o with
        | none =>
          simp only at hstep
          simpa using run_interleave prog p as s1 s2 ps out1 hstep hnf' hr hdone hne
        | some x =>
          simp only at hstep
          obtain ⟨k, rest, hk, hsim1⟩ := hstep
          obtain ⟨ih1, ih2⟩ := run_interleave prog p as s1 s2 (ps.set k rest) out1 hsim1 hnf' hr hdone hne
          exact ⟨by simpa using Interleave.step k x rest out1 hk ih1, ih2⟩

theorem all_done_of_final (s : RState α) (hfin : qFinal s.erase = true) (hok : qRaises s.erase = false) :
    ∀ x ∈ s.threads, x = RThread.done := by
  intro x hx
  have hm : x.erase ∈ s.erase.threads := List.mem_map.mpr ⟨x, hx, rfl⟩
  have h1 := List.all_eq_true.mp hfin x.erase hm
  have h2 : x.erase ≠ TState.failed := by
    intro e
    have : qRaises s.erase = true := List.any_eq_true.mpr ⟨_, hm, by simp [e]⟩
    rw [hok] at this; cases this
  simp only [Bool.or_eq_true, decide_eq_true_eq] at h1
  rcases h1 with h1 | h1
  · cases x <;> simp [RThread.erase] at h1 ⊢
  · exact absurd h1 h2

theorem rRun_threads_length (prog : Nat → List α) : ∀ (as : List RAction) (s s' : RState α) (out : List α),
    rRun prog s as = some (s', out) → s'.threads.length = s.threads.length := by
  intro as s s' out h
  have := rRun_erase prog as s s' out h
  have hl : ∀ (q q' : QState) (bs : List QAction), qRun q bs = some q' → q'.threads.length = q.threads.length := by
    intro q q' bs
    induction bs generalizing q with
    | nil => intro h; simp [qRun] at h; subst h; rfl
    | cons b bs ih =>
      intro h
      simp only [qRun] at h
      cases hs : qStep q b with
      | none => simp [hs] at h
      | some q₁ =>
        simp only [hs] at h
        rw [ih q₁ h]
        cases b <;> simp only [qStep] at hs <;> split at hs <;> simp at hs <;> subst hs <;> simp
  have := hl _ _ _ this
  simpa [RState.erase] using this

/-- **protocol ⇒ interleaving.** Every complete run of the work-queue protocol
    with at least one worker, refined with the kernel calls' programs, in which
    no kernel call failed, performs a sequence of steps that is an
    `Interleave` of the part programs `prog 0 … prog (p-1)`: every part
    program is run exactly once, completely, in its own order; and the parts
    were handed out exactly once each (`taken = range p`). -/
theorem protocol_run_interleaves (prog : Nat → List α) (p t : Nat) (ht : 1 ≤ t) (as : List RAction)
    (s : RState α) (out : List α) (hrun : rRun prog (rInit p t) as = some (s, out))
    (hfin : qFinal s.erase = true) (hok : qRaises s.erase = false) :
    Interleave ((List.range p).map prog) out ∧ s.taken = List.range p := by
  have hdone := all_done_of_final s hfin hok
  have hlen : s.threads.length = t := by
    rw [rRun_threads_length prog as _ s out hrun]; simp [rInit]
  have hne : s.threads ≠ [] := by
    intro e; rw [e] at hlen; simp at hlen; omega
  -- no `fail` action occurred: otherwise the final state would be raising
  have hnf : ∀ a ∈ as, ∀ u, a ≠ .fail u := by
    intro a ha u e
    subst e
    have h1 := rRun_erase prog as _ s out hrun
    have h2 := qRun_raises _ _ _ h1
    rw [hok] at h2
    have : (as.filterMap RAction.erase).any QAction.isFail = true :=
      List.any_eq_true.mpr ⟨.fail u, List.mem_filterMap.mpr ⟨.fail u, ha, rfl⟩, rfl⟩
    rw [this] at h2
    simp at h2
  exact run_interleave prog p as _ s _ out (sim_init prog p t) hnf hrun hdone hne

end Compose

/-! ## every run of the abstract protocol is the erasure of a refined run -/

section Lift
variable {α : Type}

/-- performing all remaining steps of a kernel call -/
theorem rRun_micros (prog : Nat → List α) (t k : Nat) : ∀ (rest : List α) (s : RState α),
    s.threads[t]? = some (RThread.running k rest) →
    rRun prog s (List.replicate rest.length (.micro t))
      = some (⟨s.queue, s.threads.set t (.running k []), s.taken⟩, rest)
  | [], s, h => by
    have : s.threads.set t (RThread.running k []) = s.threads := by
      apply List.ext_getElem?
      intro u
      by_cases hu : t = u
      · subst hu
        have hlt : t < s.threads.length := by
          by_contra hn
          rw [List.getElem?_eq_none (by omega)] at h; cases h
        rw [List.getElem?_set_self hlt, h]
      · rw [List.getElem?_set_ne hu]
    simp [rRun, this]
  | x :: rest, s, h => by
    have hlt : t < s.threads.length := by
      by_contra hn
      rw [List.getElem?_eq_none (by omega)] at h; cases h
    have hstep : rStep prog s (.micro t)
        = some (⟨s.queue, s.threads.set t (.running k rest), s.taken⟩, some x) := by
      simp only [rStep, h]
    have hnext : (⟨s.queue, s.threads.set t (.running k rest), s.taken⟩ : RState α).threads[t]?
        = some (RThread.running k rest) := by
      simp only
      rw [List.getElem?_set_self hlt]
    have ih := rRun_micros prog t k rest _ hnext
    simp only [List.length_cons, List.replicate_succ, rRun, hstep, ih, List.set_set]
    rfl

/-- the refined states that have not started any kernel program: every running
    worker still holds the whole program of its part -/
def Unstarted (prog : Nat → List α) (s : RState α) : Prop :=
  ∀ (t k : Nat) rest, s.threads[t]? = some (RThread.running k rest) → rest = prog k

theorem rRun_append (prog : Nat → List α) : ∀ (as bs : List RAction) (s s1 s2 : RState α) (o1 o2 : List α),
    rRun prog s as = some (s1, o1) → rRun prog s1 bs = some (s2, o2) →
    rRun prog s (as ++ bs) = some (s2, o1 ++ o2)
  | [], bs, s, s1, s2, o1, o2, h1, h2 => by
    simp only [rRun, Option.some.injEq, Prod.mk.injEq] at h1
    obtain ⟨rfl, rfl⟩ := h1
    simpa using h2
  | a :: as, bs, s, s1, s2, o1, o2, h1, h2 => by
    simp only [rRun] at h1
    cases hs : rStep prog s a with
    | none => rw [hs] at h1; cases h1
    | some r =>
      obtain ⟨s', o⟩ := r
      rw [hs] at h1
      simp only at h1
      cases hr : rRun prog s' as with
      | none => rw [hr] at h1; cases h1
      | some r2 =>
        obtain ⟨s'', out1⟩ := r2
        rw [hr] at h1
        simp only [Option.some.injEq, Prod.mk.injEq] at h1
        obtain ⟨rfl, rfl⟩ := h1
        have ih := rRun_append prog as bs s' s'' s2 out1 o2 hr h2
        simp only [List.cons_append, rRun, hs, ih, List.append_assoc]

theorem erase_running {x : RThread α} {k : Nat} (h : x.erase = TState.running k) :
    ∃ rest, x = RThread.running k rest := by
  cases x <;> simp [RThread.erase] at h
  exact ⟨_, by rw [h]⟩

theorem erase_atHead {x : RThread α} (h : x.erase = TState.atHead) : x = RThread.atHead := by
  cases x <;> simp [RThread.erase] at h ⊢

/-- **no protocol schedule is excluded.** Every run of the abstract work-queue
    protocol is the erasure of a run of the refined system (each kernel call
    performs its steps, say, just before it returns). -/
theorem qRun_lift (prog : Nat → List α) : ∀ (as : List QAction) (s : RState α) (q : QState),
    Unstarted prog s → qRun s.erase as = some q →
    ∃ (as' : List RAction) (s' : RState α) (out : List α),
      rRun prog s as' = some (s', out) ∧ as'.filterMap RAction.erase = as ∧ s'.erase = q ∧ Unstarted prog s'
  | [], s, q, hu, h => by
    simp only [qRun, Option.some.injEq] at h
    exact ⟨[], s, [], rfl, rfl, h, hu⟩
  | a :: as, s, q, hu, h => by
    simp only [qRun] at h
    cases hs : qStep s.erase a with
    | none => rw [hs] at h; cases h
    | some q1 =>
      rw [hs] at h
      simp only at h
      -- one (or, for `finish`, several) refined transitions reaching a state that erases to `q1`
      have hone : ∃ (bs : List RAction) (s1 : RState α) (o1 : List α),
          rRun prog s bs = some (s1, o1) ∧ bs.filterMap RAction.erase = [a] ∧ s1.erase = q1 ∧
            Unstarted prog s1 := by
        cases a with
        | take t =>
          simp only [qStep, RState.erase, erase_getElem?] at hs
          split at hs
          · rename_i k rest ht hq
            simp only [Option.some.injEq] at hs
            cases hth : s.threads[t]? with
            | none => rw [hth] at ht; cases ht
            | some x =>
              rw [hth] at ht
              have hx := erase_atHead (Option.some.inj ht)
              subst hx
              refine ⟨[.take t], ⟨rest, s.threads.set t (.running k (prog k)), s.taken ++ [k]⟩, [], ?_, rfl, ?_, ?_⟩
              · simp [rRun, rStep, hth, hq]
              · rw [← hs]; simp [RState.erase, List.map_set, RThread.erase]
              · intro u k' r' hu'
                simp only at hu'
                rcases (getElem?_set_of_some _ t u _ _ _ hth).mp hu' with ⟨_, h2⟩ | ⟨_, h2⟩
                · cases h2; rfl
                · exact hu u k' r' h2
          · cases hs
        | exit t =>
          simp only [qStep, RState.erase, erase_getElem?] at hs
          split at hs
          · rename_i ht hq
            simp only [Option.some.injEq] at hs
            cases hth : s.threads[t]? with
            | none => rw [hth] at ht; cases ht
            | some x =>
              rw [hth] at ht
              have hx := erase_atHead (Option.some.inj ht)
              subst hx
              refine ⟨[.exit t], ⟨[], s.threads.set t .done, s.taken⟩, [], ?_, rfl, ?_, ?_⟩
              · simp [rRun, rStep, hth, hq]
              · rw [← hs]; simp [RState.erase, List.map_set, RThread.erase]
              · intro u k' r' hu'
                simp only at hu'
                rcases (getElem?_set_of_some _ t u _ _ _ hth).mp hu' with ⟨_, h2⟩ | ⟨_, h2⟩
                · cases h2
                · exact hu u k' r' h2
          · cases hs
        | fail t =>
          simp only [qStep, RState.erase, erase_getElem?] at hs
          split at hs
          · rename_i k ht
            simp only [Option.some.injEq] at hs
            cases hth : s.threads[t]? with
            | none => rw [hth] at ht; cases ht
            | some x =>
              rw [hth] at ht
              obtain ⟨rest, hx⟩ := erase_running (Option.some.inj ht)
              subst hx
              refine ⟨[.fail t], ⟨s.queue, s.threads.set t .failed, s.taken⟩, [], ?_, rfl, ?_, ?_⟩
              · simp [rRun, rStep, hth]
              · rw [← hs]; simp [RState.erase, List.map_set, RThread.erase]
              · intro u k' r' hu'
                simp only at hu'
                rcases (getElem?_set_of_some _ t u _ _ _ hth).mp hu' with ⟨_, h2⟩ | ⟨_, h2⟩
                · cases h2
                · exact hu u k' r' h2
          · cases hs
        | finish t =>
          simp only [qStep, RState.erase, erase_getElem?] at hs
          split at hs
          · rename_i k ht
            simp only [Option.some.injEq] at hs
            cases hth : s.threads[t]? with
            | none => rw [hth] at ht; cases ht
            | some x =>
              rw [hth] at ht
              obtain ⟨rest, hx⟩ := erase_running (Option.some.inj ht)
              subst hx
              have hlt : t < s.threads.length := by
                by_contra hn
                rw [List.getElem?_eq_none (by omega)] at hth; cases hth
              have hm := rRun_micros prog t k rest s hth
              have hfin : rRun prog (⟨s.queue, s.threads.set t (.running k []), s.taken⟩ : RState α) [.finish t]
                  = some (⟨s.queue, s.threads.set t .atHead, s.taken⟩, []) := by
                simp [rRun, rStep, List.getElem?_set_self hlt, List.set_set]
              refine ⟨List.replicate rest.length (.micro t) ++ [.finish t],
                ⟨s.queue, s.threads.set t .atHead, s.taken⟩, rest ++ [], rRun_append prog _ _ _ _ _ _ _ hm hfin,
                ?_, ?_, ?_⟩
              · rw [List.filterMap_append]
                have : (List.replicate rest.length (RAction.micro t)).filterMap RAction.erase = [] := by
                  rw [List.filterMap_eq_nil_iff]
                  intro a ha
                  rw [(List.mem_replicate.mp ha).2]; rfl
                rw [this]; rfl
              · rw [← hs]; simp [RState.erase, List.map_set, RThread.erase]
              · intro u k' r' hu'
                simp only at hu'
                rcases (getElem?_set_of_some _ t u _ _ _ hth).mp hu' with ⟨_, h2⟩ | ⟨_, h2⟩
                · cases h2
                · exact hu u k' r' h2
          · cases hs
      obtain ⟨bs, s1, o1, hb1, hb2, hb3, hb4⟩ := hone
      rw [← hb3] at h
      obtain ⟨as', s', out, hr, he, hq, hu'⟩ := qRun_lift prog as s1 q hb4 h
      exact ⟨bs ++ as', s', o1 ++ out, rRun_append prog bs as' s s1 s' o1 out hb1 hr,
        by rw [List.filterMap_append, hb2, he]; rfl, hq, hu'⟩

theorem unstarted_init (prog : Nat → List α) (p t : Nat) : Unstarted prog (rInit p t : RState α) := by
  intro u k rest hu
  simp only [rInit] at hu
  rw [List.getElem?_replicate] at hu
  split at hu <;> cases hu

theorem rInit_erase (p t : Nat) : (rInit p t : RState α).erase = qInit p t := by
  simp [rInit, qInit, RState.erase, RThread.erase]

end Lift

/-! ## the schedules of `ndl.ndl` -/

/-- `ValidThreading` and the operational `Interleave` of the part programs are the same notion -/
theorem validThreading_iff_interleave (parts : List (List Nat)) (files : List (List (Event Nat Nat)))
    (s : List MicroStep) :
    ValidThreading parts files s ↔ Interleave (threadingPrograms parts files) s := by
  constructor
  · rintro ⟨h1, h2⟩
    have hlen : (threadingPrograms parts files).length = parts.length := by simp [threadingPrograms]
    apply interleave_of_filter (fun st => st.part)
    · intro a ha; rw [hlen]; exact h1 a ha
    · intro k hk
      rw [hlen] at hk
      rw [h2 k hk]
      unfold threadingPrograms
      simp [List.getD_eq_getElem?_getD, List.getElem?_map, List.getElem?_range hk]
  · exact interleave_is_valid_threading parts files s

/-- the per-part programs of one chunk file (one OpenMP `parallel` block) -/
def openmpFilePrograms (parts : List (List Nat)) (f : Nat) (es : List (Event Nat Nat)) : List (List MicroStep) :=
  (List.range parts.length).map (fun k => fileProgram k f (parts.getD k []) es)

/-- **OpenMP, operationally**: file after file (the implicit barrier at the end
    of each `parallel` block), and inside a file ANY operational interleaving of
    the per-part programs of that file (any number of threads, any assignment
    of `prange` iterations to threads) -/
def InterleaveOpenmpFrom (parts : List (List Nat)) : Nat → List (List (Event Nat Nat)) → List MicroStep → Prop
  | _, [], s => s = []
  | f, es :: rest, s => ∃ s₁ s₂, s = s₁ ++ s₂ ∧ Interleave (openmpFilePrograms parts f es) s₁ ∧
      InterleaveOpenmpFrom parts (f + 1) rest s₂

theorem openmpFilePrograms_tag (parts : List (List Nat)) (f : Nat) (es : List (Event Nat Nat)) :
    ∀ k (p : List MicroStep), (openmpFilePrograms parts f es)[k]? = some p → ∀ a ∈ p, MicroStep.part a = k := by
  intro k p hp a ha
  unfold openmpFilePrograms at hp
  rw [List.getElem?_map] at hp
  have hklt : k < parts.length := by
    by_contra hn
    rw [List.getElem?_eq_none (by simp; omega)] at hp; cases hp
  rw [List.getElem?_range hklt] at hp
  simp only [Option.map_some, Option.some.injEq] at hp
  subst hp
  exact (fileProgram_mem _ _ _ _ a ha).1

theorem openmpFile_valid_iff (parts : List (List Nat)) (f : Nat) (es : List (Event Nat Nat))
    (s : List MicroStep) :
    ((∀ st ∈ s, st.part < parts.length) ∧
      (∀ k, k < parts.length → s.filter (fun st => st.part = k) = fileProgram k f (parts.getD k []) es))
    ↔ Interleave (openmpFilePrograms parts f es) s := by
  have hlen : (openmpFilePrograms parts f es).length = parts.length := by simp [openmpFilePrograms]
  have hget : ∀ k, k < parts.length →
      (openmpFilePrograms parts f es).getD k [] = fileProgram k f (parts.getD k []) es := by
    intro k hk
    unfold openmpFilePrograms
    rw [List.getD_eq_getElem?_getD, List.getElem?_map, List.getElem?_range hk]
    rfl
  constructor
  · rintro ⟨h1, h2⟩
    apply interleave_of_filter (fun st => st.part)
    · intro a ha; rw [hlen]; exact h1 a ha
    · intro k hk
      rw [hlen] at hk
      rw [h2 k hk, hget k hk]
  · intro h
    obtain ⟨h1, h2⟩ := interleave_filter (fun st => st.part) _ s (openmpFilePrograms_tag parts f es) h
    rw [hlen] at h1 h2
    exact ⟨h1, fun k hk => by rw [h2 k hk, hget k hk]⟩

/-- `ValidOpenmp` is exactly: files in order, any interleaving inside a file -/
theorem validOpenmpFrom_iff_interleave (parts : List (List Nat)) : ∀ (files : List (List (Event Nat Nat)))
    (f : Nat) (s : List MicroStep),
    ValidOpenmpFrom parts f files s ↔ InterleaveOpenmpFrom parts f files s
  | [], f, s => Iff.rfl
  | es :: rest, f, s => by
    simp only [ValidOpenmpFrom, InterleaveOpenmpFrom]
    constructor
    · rintro ⟨s₁, s₂, e, h1, h2, h3⟩
      exact ⟨s₁, s₂, e, (openmpFile_valid_iff parts f es s₁).mp ⟨h1, h2⟩,
        (validOpenmpFrom_iff_interleave parts rest (f + 1) s₂).mp h3⟩
    · rintro ⟨s₁, s₂, e, h1, h3⟩
      obtain ⟨a, b⟩ := (openmpFile_valid_iff parts f es s₁).mpr h1
      exact ⟨s₁, s₂, e, a, b, (validOpenmpFrom_iff_interleave parts rest (f + 1) s₂).mpr h3⟩

end Pyndl
