import PyndlProofs.Chunking

/-!
  PyndlProofs.SubmitLoop — the step semantics of the submit loop
  (`PyndlModel.Chunking.runLoop`) refines to the closed form `simulate`:
  for every completion oracle the loop ends, having submitted exactly the jobs
  `simulate` counts, and the callbacks add up to the number of events.
-/

set_option linter.unusedVariables false

namespace Pyndl
open List

/-- the loop invariant at the start of pass `k` -/
def LoopInv (delay : Nat → Nat) (burst k : Nat) (s : LoopState) : Prop :=
  s.now = tSubmit delay burst k ∧ s.ii = k ∧
  s.subs = (List.range k).reverse.map (fun j => (j, tDone delay burst j))

theorem loopInv_init (delay : Nat → Nat) (burst : Nat) : LoopInv delay burst 0 loopInit := by
  simp [LoopInv, loopInit, tSubmit]

theorem poolClosed_iff (n per burst k : Nat) (delay : Nat → Nat) (s : LoopState)
    (h : LoopInv delay burst k s) :
    poolClosed n per s = true ↔
      ∃ j, j < k ∧ (jobResult n per j).closes = true ∧ tDone delay burst j < tSubmit delay burst k := by
  obtain ⟨h1, h2, h3⟩ := h
  simp only [poolClosed, h3, h1, List.any_eq_true, List.mem_map, List.mem_reverse, List.mem_range,
    Bool.and_eq_true, decide_eq_true_eq]
  constructor
  · rintro ⟨p, ⟨j, hj, rfl⟩, hc, ht⟩
    exact ⟨j, hj, hc, ht⟩
  · rintro ⟨j, hj, hc, ht⟩
    exact ⟨_, ⟨j, hj, rfl⟩, hc, ht⟩

theorem loopStep_inv (n per burst k : Nat) (delay : Nat → Nat) (s : LoopState)
    (h : LoopInv delay burst k s) (hc : poolClosed n per s = false) :
    ∃ s', loopStep n per burst delay s = some s' ∧ LoopInv delay burst (k + 1) s' := by
  obtain ⟨h1, h2, h3⟩ := h
  refine ⟨_, by simp only [loopStep, hc]; rfl, ?_, ?_, ?_⟩
  · simp only [h1, h2, tSubmit]
  · simp only [h2]
  · simp only [h1, h2, h3, List.range_succ, List.reverse_append, List.reverse_cons, List.reverse_nil,
      List.nil_append, List.cons_append, List.map_cons, tDone]

theorem foldl_min_le_mem (f : Nat → Nat) (l : List Nat) (m x : Nat) (hx : x ∈ l) :
    l.foldl (fun m j => min m (f j)) m ≤ f x := by
  induction l generalizing m with
  | nil => cases hx
  | cons y l ih =>
    simp only [List.foldl_cons]
    rcases List.mem_cons.mp hx with rfl | hx
    · exact Nat.le_trans (foldl_min_le_init _ _ _) (Nat.min_le_right _ _)
    · exact ih _ hx

theorem foldl_min_attained (f : Nat → Nat) (l : List Nat) (m : Nat) :
    l.foldl (fun m j => min m (f j)) m = m ∨ ∃ x ∈ l, l.foldl (fun m j => min m (f j)) m = f x := by
  induction l generalizing m with
  | nil => exact Or.inl rfl
  | cons y l ih =>
    simp only [List.foldl_cons]
    rcases ih (min m (f y)) with h | ⟨x, hx, h⟩
    · rw [h]
      rcases Nat.le_total m (f y) with hm | hm
      · exact Or.inl (Nat.min_eq_left hm)
      · exact Or.inr ⟨y, by simp, Nat.min_eq_right hm⟩
    · exact Or.inr ⟨x, by simp [hx], h⟩

/-- the pool is found closed at pass `k` exactly when pass `k` starts after the
    closing time of the closed form -/
theorem stop_iff (n per burst k H : Nat) (hp : 1 ≤ per) (delay : Nat → Nat) (hk : k ≤ H + 1) :
    (∃ j, j < k ∧ (jobResult n per j).closes = true ∧ tDone delay burst j < tSubmit delay burst k) ↔
      closeTime n per burst delay H < tSubmit delay burst k := by
  constructor
  · rintro ⟨j, hj, hc, ht⟩
    refine Nat.lt_of_le_of_lt ?_ ht
    unfold closeTime
    exact foldl_min_le_mem _ _ _ j (by simp only [List.mem_filter, List.mem_range]; exact ⟨by omega, hc⟩)
  · intro hlt
    have key : ∃ j, (jobResult n per j).closes = true ∧
        tDone delay burst j = closeTime n per burst delay H := by
      unfold closeTime
      rcases foldl_min_attained (tDone delay burst)
        ((List.range (H + 1)).filter (fun j => (jobResult n per j).closes))
        (tDone delay burst (n / per)) with h | ⟨x, hx, h⟩
      · exact ⟨n / per, (jobResult_closes_iff n per _ hp).mpr (Nat.le_refl _), h.symm⟩
      · simp only [List.mem_filter] at hx
        exact ⟨x, hx.2, h.symm⟩
    obtain ⟨j, hc, hj⟩ := key
    refine ⟨j, ?_, hc, by omega⟩
    apply Nat.lt_of_not_le
    intro hkj
    have := tSubmit_mono delay burst hkj
    unfold tDone at hj; omega

theorem filter_range_initial (p : Nat → Bool) (K : Nat) (hlt : ∀ j, j < K → p j = true)
    (hge : ∀ j, K ≤ j → p j = false) (m : Nat) :
    (List.range m).filter p = List.range (min m K) := by
  induction m with
  | zero => simp
  | succ m ih =>
    rw [List.range_succ, List.filter_append, ih]
    by_cases hm : m < K
    · have : p m = true := hlt m hm
      simp only [List.filter_cons, this, if_true, List.filter_nil]
      rw [Nat.min_eq_left (by omega), Nat.min_eq_left (by omega), List.range_succ]
    · have : p m = false := hge m (by omega)
      rw [Nat.min_eq_right (by omega), Nat.min_eq_right (by omega)]
      simp [List.filter_cons, this]

/-- the loop, started in the invariant at pass `k` no later than the closing
    time, ends at the first pass `K` that starts after the closing time -/
theorem runLoop_ends (n per burst H : Nat) (hp : 1 ≤ per) (delay : Nat → Nat)
    (hH : closeTime n per burst delay H ≤ H) :
    ∀ fuel k s, LoopInv delay burst k s →
      (∀ j, j < k → tSubmit delay burst j ≤ closeTime n per burst delay H) →
      k ≤ H + 1 → H + 2 ≤ k + fuel →
      ∃ s' K, runLoop n per burst delay fuel s = some s' ∧ LoopInv delay burst K s' ∧ K ≤ H + 1 ∧
        closeTime n per burst delay H < tSubmit delay burst K ∧
        ∀ j, j < K → tSubmit delay burst j ≤ closeTime n per burst delay H := by
  intro fuel
  induction fuel with
  | zero => intro k s _ _ h1 h2; omega
  | succ fuel ih =>
    intro k s hinv hbelow hk hf
    by_cases hlt : closeTime n per burst delay H < tSubmit delay burst k
    · have hcl : poolClosed n per s = true :=
        (poolClosed_iff n per burst k delay s hinv).mpr ((stop_iff n per burst k H hp delay hk).mpr hlt)
      refine ⟨s, k, ?_, hinv, hk, hlt, hbelow⟩
      simp only [runLoop, loopStep, hcl, if_true]
    · have hncl : poolClosed n per s = false := by
        cases hc : poolClosed n per s with
        | false => rfl
        | true =>
          exact absurd ((stop_iff n per burst k H hp delay hk).mp
            ((poolClosed_iff n per burst k delay s hinv).mp hc)) hlt
      obtain ⟨s1, hs1, hinv1⟩ := loopStep_inv n per burst k delay s hinv hncl
      have hkH : k ≤ H := by
        have := le_tSubmit delay burst k
        omega
      obtain ⟨s', K, hr, hres⟩ := ih (k + 1) s1 hinv1
        (fun j hj => by
          by_cases hjk : j < k
          · exact hbelow j hjk
          · have : j = k := by omega
            subst this; omega)
        (by omega) (by omega)
      exact ⟨s', K, by simp only [runLoop, hs1]; exact hr, hres⟩

/-- **the step semantics refines to the closed form, for every completion
    oracle**: with `H = tDone (n / per)` (the tick at which the first closing
    job completes) the loop ends within `H + 2` passes, and in its final state
    the jobs submitted are exactly `0 … K-1` with `K = (simulate …).2.1`, the
    clock is `tSubmit K`, and the callbacks of those jobs add up to
    `(simulate …).2.2` — which `submit_loop_terminates` shows to be `n`. -/
theorem runLoop_refines_simulate (n per burst : Nat) (hp : 1 ≤ per) (delay : Nat → Nat) :
    let H := tDone delay burst (n / per)
    let r := simulate n per burst delay H
    ∃ s, runLoop n per burst delay (H + 2) loopInit = some s ∧
      s.ii = r.2.1 ∧ s.now = tSubmit delay burst r.2.1 ∧
      s.subs.map Prod.fst = (List.range r.2.1).reverse ∧
      loopCount n per s = r.2.2 ∧ loopCount n per s = n := by
  intro H r
  obtain ⟨hlo, hhi⟩ := closeTime_bounds n per burst hp delay H
  obtain ⟨s, K, hrun, ⟨hnow, hii, hsubs⟩, hK, hstop, hbelow⟩ :=
    runLoop_ends n per burst H hp delay hhi (H + 2) 0 loopInit (loopInv_init delay burst)
      (fun j hj => by omega) (by omega) (by omega)
  have hfilter : (List.range (H + 1)).filter
      (fun j => decide (tSubmit delay burst j ≤ closeTime n per burst delay H)) = List.range K := by
    rw [filter_range_initial _ K (fun j hj => by simpa using hbelow j hj)
      (fun j hj => by
        have := tSubmit_mono delay burst hj
        simp only [decide_eq_false_iff_not]; omega)]
    rw [Nat.min_eq_right hK]
  have hr1 : r.2.1 = K := by
    show ((List.range (H + 1)).filter _).length = K
    rw [hfilter, List.length_range]
  have hr2 : r.2.2 = ((List.range K).map (fun j => (jobResult n per j).count)).sum := by
    show (((List.range (H + 1)).filter _).map _).sum = _
    rw [hfilter]
  have hcount : loopCount n per s = r.2.2 := by
    rw [hr2]
    simp only [loopCount, hsubs, List.map_map, List.map_reverse, List.sum_reverse]
    rfl
  refine ⟨s, hrun, by rw [hr1]; exact hii, by rw [hr1]; exact hnow, ?_, hcount, ?_⟩
  · rw [hr1, hsubs, List.map_map]
    simp only [List.map_reverse]
    congr 1
    exact List.map_id'' (fun _ => rfl) _ |>.trans rfl
  · rw [hcount]
    exact (submit_loop_terminates n per burst hp delay).2.2.2

/-- more fuel does not change the answer: `none` only ever means "not ended yet" -/
theorem runLoop_fuel_succ (n per burst : Nat) (delay : Nat → Nat) :
    ∀ fuel s s', runLoop n per burst delay fuel s = some s' →
      runLoop n per burst delay (fuel + 1) s = some s' := by
  intro fuel
  induction fuel with
  | zero => intro s s' h; simp [runLoop] at h
  | succ fuel ih =>
    intro s s' h
    rw [runLoop] at h ⊢
    cases hs : loopStep n per burst delay s with
    | none => rw [hs] at h; exact h
    | some s1 => rw [hs] at h; exact ih s1 s' h

theorem runLoop_fuel_mono (n per burst : Nat) (delay : Nat → Nat) (fuel extra : Nat) (s s' : LoopState)
    (h : runLoop n per burst delay fuel s = some s') :
    runLoop n per burst delay (fuel + extra) s = some s' := by
  induction extra with
  | zero => exact h
  | succ e ih => exact runLoop_fuel_succ n per burst delay (fuel + e) s s' ih

/-- the final state is one in which the pool is closed (the `break` was taken) -/
theorem runLoop_final_closed (n per burst : Nat) (delay : Nat → Nat) :
    ∀ fuel s s', runLoop n per burst delay fuel s = some s' → poolClosed n per s' = true := by
  intro fuel
  induction fuel with
  | zero => intro s s' h; simp [runLoop] at h
  | succ fuel ih =>
    intro s s' h
    rw [runLoop] at h
    cases hs : loopStep n per burst delay s with
    | none =>
      rw [hs] at h
      cases h
      unfold loopStep at hs
      cases hc : poolClosed n per s with
      | true => rfl
      | false => rw [hc] at hs; simp at hs
    | some s1 => rw [hs] at h; exact ih s1 s' h

end Pyndl
