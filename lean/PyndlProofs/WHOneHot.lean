/-
  PyndlProofs.WHOneHot — C14 on whole event sequences and on names:
  Widrow–Hoff (`wh.wh`, the specifications `whR2BSpec` / `whB2RSpec` /
  `whR2RSpec` of `PyndlProofs.WHSpec`, and the model `whModel`) with one-hot
  vector tables IS Rescorla–Wagner learning (`rwLearn`, and the model
  `ndlModel` of `ndl.ndl`) after renaming vector dimensions to names; and the
  row order of a vector table is irrelevant.
-/
import PyndlProofs.WHSpec
import PyndlProofs.NdlSpec
import PyndlProofs.NdlCall

set_option linter.unusedSectionVars false
set_option linter.unusedSimpArgs false
set_option linter.unusedVariables false

namespace Pyndl
open List

variable {R : Type} [CommRing R]

/-! ## one-hot tables on names -/

/-- a one-hot (unit vector) table: the row labelled `c` is the unit vector of
    dimension `σ c` (`σ c` is a dimension of the table).  Nothing is said about
    the order of the rows, about dimensions that are no `σ c` (unused
    dimensions), nor about what `σ` does off the row labels.  "The row labelled
    `c`" is row `t.names.idxOf c`, as in `tabInput` / `toIds`. -/
def OneHotTable (t : VecTable R) (σ : String → Nat) : Prop :=
  ∀ c ∈ t.names, σ c < t.dims.length ∧
    ∀ k, k < t.dims.length →
      t.vals.getD (t.dims.length * t.names.idxOf c + k) 0 = if k = σ c then 1 else 0

/-- the summed vectors of named items of a one-hot table count how often each
    dimension is named -/
theorem tabInput_onehot (t : VecTable R) (σ : String → Nat) (h : OneHotTable t σ)
    (l : List String) (hl : ∀ c ∈ l, c ∈ t.names) (k : Nat) (hk : k < t.dims.length) :
    tabInput t l k = ((l.map σ).count k : R) := by
  unfold tabInput
  induction l with
  | nil => simp
  | cons c cs ih =>
    have hc := (h c (hl c (by simp))).2 k hk
    simp only [List.map_cons, List.sum_cons, ih (fun x hx => hl x (by simp [hx])), hc]
    by_cases hkc : k = σ c
    · subst hkc; simp [List.count_cons_self]; ring
    · have : ¬ σ c = k := fun e => hkc e.symm
      simp [hkc, List.count_cons_of_ne this]

/-- the delta rule with an input vector that is the indicator (with
    multiplicity) of a list of dimensions below `n` is the binary-cue row update,
    on ALL positions (positions `≥ n` are untouched by both) -/
theorem whRowReal_eq_whRowBin (n : Nat) (x : Nat → R) (cs : List Nat) (hcs : ∀ c ∈ cs, c < n)
    (hx : ∀ j, j < n → x j = (cs.count j : R)) (uOf : R → R) (w : Nat → R) :
    whRowReal n x uOf w = whRowBin uOf w cs := by
  funext k
  by_cases hk : k < n
  · rw [← whRowReal_count n cs hcs uOf w k hk]
    have hsum : ((List.range n).map (fun k => x k * w k)).sum
        = ((List.range n).map (fun k => (cs.count k : R) * w k)).sum := by
      congr 1
      apply List.map_congr_left
      intro j hj
      rw [hx j (List.mem_range.mp hj)]
    simp only [whRowReal, hk, if_true, hx k hk, hsum]
  · have h0 : cs.count k = 0 := List.count_eq_zero_of_not_mem (fun hm => hk (hcs k hm))
    simp [whRowReal, whRowBin, hk, h0]

/-- the delta rule reads its input vector only below `n` -/
theorem whRowReal_congr (n : Nat) (x x' : Nat → R) (hx : ∀ j, j < n → x j = x' j) (uOf : R → R) (w : Nat → R) :
    whRowReal n x uOf w = whRowReal n x' uOf w := by
  funext k
  have hsum : ((List.range n).map (fun k => x k * w k)).sum
      = ((List.range n).map (fun k => x' k * w k)).sum := by
    congr 1
    apply List.map_congr_left
    intro j hj
    rw [hx j (List.mem_range.mp hj)]
  by_cases hk : k < n
  · simp only [whRowReal, hk, if_true, hx k hk, hsum]
  · simp only [whRowReal, hk, if_false]

/-- the Rescorla–Wagner error term written with a proposition -/
theorem whRowBin_eq_rwRow_prop (β₁ β₂ lam : R) (w : Nat → R) (cs : List Nat) (P : Prop) [Decidable P] :
    whRowBin (fun a => if P then β₁ * (lam - a) else β₂ * (0 - a)) w cs
      = rwRow (fun _ => (1 : R)) β₁ β₂ lam w cs (decide P) := by
  rw [← whRowBin_eq_rwRow]
  congr 1
  funext a
  by_cases hm : P <;> simp [hm]

/-- `whRowBin` on any index type (the row update of `whB2RSpec`) with the
    Rescorla–Wagner error term is `rwRow` with α = 1 -/
theorem b2rRow_eq_rwRow {ι : Type} [DecidableEq ι] (β₁ β₂ lam : R) (w : ι → R) (cs : List ι) (p : Bool) :
    (fun c => w c + (cs.count c : R) * (if p then β₁ * (lam - (cs.map w).sum) else β₂ * (0 - (cs.map w).sum)))
      = rwRow (fun _ => (1 : R)) β₁ β₂ lam w cs p := by
  funext c
  rw [rwRow_apply]
  simp only [rwU, one_mul]

/-! ## real cue vectors → binary outcomes -/

/-- the events with the cues renamed to their vector dimension -/
def renameCues (σ : String → Nat) (es : List (Event String String)) : List (Event Nat String) :=
  es.map (fun e => ⟨e.cues.map σ, e.outcomes⟩)

/-- the events with the outcomes renamed to their vector dimension -/
def renameOutcomes (τ : String → Nat) (es : List (Event String String)) : List (Event String Nat) :=
  es.map (fun e => ⟨e.cues, e.outcomes.map τ⟩)

/-- the events with both sides renamed -/
def renameBoth (σ τ : String → Nat) (es : List (Event String String)) : List (Event Nat Nat) :=
  es.map (fun e => ⟨e.cues.map σ, e.outcomes.map τ⟩)

/-- **real → binary with a one-hot cue table, whole event sequence, no
    injectivity needed**: the Widrow–Hoff row of outcome `o` is the
    Rescorla–Wagner row (α = 1) of `o` for the events whose cues are renamed
    to dimensions — as functions of the dimension. -/
theorem whR2BSpec_onehot_renamed (β₁ β₂ lam : R) (ct : VecTable R) (σ : String → Nat)
    (hoh : OneHotTable ct σ) (es : List (Event String String))
    (htab : ∀ e ∈ es, ∀ c ∈ e.cues, c ∈ ct.names) (o : String) :
    whR2BSpec β₁ β₂ lam ct es o
      = rwLearn (fun _ => (1 : R)) β₁ β₂ lam (fun _ _ => 0) (renameCues σ es) o := by
  unfold whR2BSpec renameCues
  have key : ∀ (es : List (Event String String)), (∀ e ∈ es, ∀ c ∈ e.cues, c ∈ ct.names) →
      ∀ (r : Nat → R) (W : String → Nat → R), W o = r →
      es.foldl (fun r e => whRowReal ct.dims.length (tabInput ct e.cues)
        (fun a => if o ∈ e.outcomes then β₁ * (lam - a) else β₂ * (0 - a)) r) r
      = rwLearn (fun _ => (1 : R)) β₁ β₂ lam W
          (es.map (fun e => (⟨e.cues.map σ, e.outcomes⟩ : Event Nat String))) o := by
    intro es
    induction es with
    | nil => intro _ r W hW; exact hW.symm
    | cons e es ih =>
      intro htab r W hW
      simp only [List.foldl_cons, List.map_cons, rwLearn_cons]
      refine ih (fun x hx => htab x (by simp [hx])) _ _ ?_
      have hcs : ∀ c ∈ e.cues.map σ, c < ct.dims.length := by
        intro c hc
        obtain ⟨c', hc', rfl⟩ := List.mem_map.mp hc
        exact (hoh c' (htab e (by simp) c' hc')).1
      rw [whRowReal_eq_whRowBin ct.dims.length _ (e.cues.map σ) hcs
        (fun j hj => tabInput_onehot ct σ hoh e.cues (htab e (by simp)) j hj),
        whRowBin_eq_rwRow_prop]
      simp only [rwStep, hW]
  exact key es htab _ _ rfl

/-- **`whR2BSpec_onehot_eq_rw`** — real → binary with a one-hot cue table =
    Rescorla–Wagner ON NAMES, whole event sequence.

    Hypotheses: `hoh` the cue table is one-hot with dimension map `σ` (any row
    order, unused rows and dimensions allowed); `hS` every cue of every event
    belongs to the set `S`, `hSn` the members of `S` have a row in the table
    (so `htab` of `wh.wh`, which raises `ValueError` otherwise, holds);
    `hinj` `σ` is injective on `S` (distinct cues that occur have distinct unit
    vectors).  Then for every outcome `o` and every cue `c ∈ S` the
    Widrow–Hoff weight at (o, dimension `σ c`) is the Rescorla–Wagner weight
    at (o, c) with α = 1 and the same β₁, β₂, λ. -/
theorem whR2BSpec_onehot_eq_rw (β₁ β₂ lam : R) (ct : VecTable R) (σ : String → Nat)
    (hoh : OneHotTable ct σ) (S : String → Prop) (hSn : ∀ c, S c → c ∈ ct.names)
    (hinj : ∀ a b, S a → S b → σ a = σ b → a = b)
    (es : List (Event String String)) (hS : ∀ e ∈ es, ∀ c ∈ e.cues, S c)
    (o c : String) (hc : S c) :
    whR2BSpec β₁ β₂ lam ct es o (σ c)
      = rwLearn (fun _ => (1 : R)) β₁ β₂ lam (fun _ _ => 0) es o c := by
  rw [whR2BSpec_onehot_renamed β₁ β₂ lam ct σ hoh es (fun e he c hc => hSn c (hS e he c hc)) o]
  have hmap : renameCues σ es
      = es.map (fun e => (⟨e.cues.map σ, e.outcomes.map id⟩ : Event Nat String)) := by
    unfold renameCues
    simp only [List.map_id]
  rw [hmap]
  exact rwLearn_rename_on σ id S (fun _ => True) hinj (fun a b _ _ h => h) 1 β₁ β₂ lam
    (fun _ _ => 0) (fun _ _ => 0) es (fun e he => ⟨hS e he, fun _ _ => trivial⟩)
    (fun _ _ _ _ => rfl) o c trivial hc

/-- a dimension that is the image of no cue occurring in the events keeps
    weight 0 (in particular every unused dimension of the table, and every
    position beyond the table's dimensions) -/
theorem whR2BSpec_onehot_unused_dim (β₁ β₂ lam : R) (ct : VecTable R) (σ : String → Nat)
    (hoh : OneHotTable ct σ) (es : List (Event String String))
    (htab : ∀ e ∈ es, ∀ c ∈ e.cues, c ∈ ct.names) (o : String) (k : Nat)
    (hk : ∀ e ∈ es, ∀ c ∈ e.cues, σ c ≠ k) :
    whR2BSpec β₁ β₂ lam ct es o k = 0 := by
  rw [whR2BSpec_onehot_renamed β₁ β₂ lam ct σ hoh es htab o]
  rw [rwLearn_unseen_cue]
  intro e he hke
  unfold renameCues at he
  obtain ⟨e0, he0, rfl⟩ := List.mem_map.mp he
  obtain ⟨c, hc, hck⟩ := List.mem_map.mp hke
  exact hk e0 he0 c hc hck

/-! ## binary cues → real outcome vectors -/

/-- a count that is at most one is the indicator of membership -/
theorem count_le_one_indicator (l : List Nat) (d : Nat) (h : l.count d ≤ 1) :
    ((l.count d : Nat) : R) = if d ∈ l then 1 else 0 := by
  by_cases hm : d ∈ l
  · have : 0 < l.count d := List.count_pos_iff.mpr hm
    have h1 : l.count d = 1 := by omega
    simp [hm, h1]
  · simp [hm, List.count_eq_zero_of_not_mem hm]

/-- one step of `whB2RSpec` with a 0/1 target is `rwRow` with α = 1, β₁ = β₂ = η, λ = 1 -/
theorem b2rStep_eq_rwRow {ι : Type} [DecidableEq ι] (eta : R) (w : ι → R) (cs : List ι) (P : Prop) [Decidable P] :
    (fun c => w c + (cs.count c : R) * (eta * ((if P then (1 : R) else 0) - (cs.map w).sum)))
      = rwRow (fun _ => (1 : R)) eta eta 1 w cs (decide P) := by
  funext c
  rw [rwRow_apply]
  by_cases hm : P <;> simp [rwU, hm]

/-- **binary → real with a one-hot outcome table, whole event sequence, no
    injectivity needed**: if in every event dimension `d` is named at most once
    by the (renamed) outcomes, the Widrow–Hoff row of dimension `d` is the
    Rescorla–Wagner row (α = 1, β₁ = β₂ = η, λ = 1) of `d` for the events whose
    outcomes are renamed to dimensions — as functions of the cue NAME. -/
theorem whB2RSpec_onehot_renamed (eta : R) (ot : VecTable R) (τ : String → Nat)
    (hoh : OneHotTable ot τ) (es : List (Event String String))
    (htab : ∀ e ∈ es, ∀ o ∈ e.outcomes, o ∈ ot.names) (d : Nat) (hd : d < ot.dims.length)
    (hu : ∀ e ∈ es, (e.outcomes.map τ).count d ≤ 1) :
    whB2RSpec eta ot es d
      = rwLearn (fun _ => (1 : R)) eta eta 1 (fun _ _ => 0) (renameOutcomes τ es) d := by
  unfold whB2RSpec renameOutcomes
  have key : ∀ (es : List (Event String String)), (∀ e ∈ es, ∀ o ∈ e.outcomes, o ∈ ot.names) →
      (∀ e ∈ es, (e.outcomes.map τ).count d ≤ 1) →
      ∀ (r : String → R) (W : Nat → String → R), W d = r →
      es.foldl (fun r e => fun c =>
        r c + (e.cues.count c : R) * (eta * (tabInput ot e.outcomes d - (e.cues.map r).sum))) r
      = rwLearn (fun _ => (1 : R)) eta eta 1 W
          (es.map (fun e => (⟨e.cues, e.outcomes.map τ⟩ : Event String Nat))) d := by
    intro es
    induction es with
    | nil => intro _ _ r W hW; exact hW.symm
    | cons e es ih =>
      intro htab hu r W hW
      simp only [List.foldl_cons, List.map_cons, rwLearn_cons]
      refine ih (fun x hx => htab x (by simp [hx])) (fun x hx => hu x (by simp [hx])) _ _ ?_
      rw [tabInput_onehot ot τ hoh e.outcomes (htab e (by simp)) d hd,
        count_le_one_indicator _ d (hu e (by simp)), b2rStep_eq_rwRow]
      simp only [rwStep, hW]
  exact key es htab hu _ _ rfl

/-- **`whB2RSpec_onehot_eq_rw`** — binary → real with a one-hot outcome table =
    Rescorla–Wagner ON NAMES, whole event sequence, η = β₁ = β₂, λ = 1.

    Hypotheses: `hoh` the outcome table is one-hot with dimension map `τ`;
    `hT` / `hTn` the outcomes of the events belong to a set `T` of row labels
    of the table (`wh.wh` raises `ValueError` otherwise); `hinj` `τ` is
    injective on `T`; `hu` no outcome is repeated within an event (after the
    duplicate policy: automatic for `remove_duplicates=None/True`, a real
    precondition for `False` — summed outcome vectors count a repeated outcome
    twice, presence is binary).  Then for every outcome `o ∈ T` and EVERY cue
    name `c`, the Widrow–Hoff weight at (dimension `τ o`, c) is the
    Rescorla–Wagner weight at (o, c). -/
theorem whB2RSpec_onehot_eq_rw (eta : R) (ot : VecTable R) (τ : String → Nat)
    (hoh : OneHotTable ot τ) (T : String → Prop) (hTn : ∀ o, T o → o ∈ ot.names)
    (hinj : ∀ a b, T a → T b → τ a = τ b → a = b)
    (es : List (Event String String)) (hT : ∀ e ∈ es, ∀ o ∈ e.outcomes, T o)
    (hu : ∀ e ∈ es, e.outcomes.Nodup) (o c : String) (ho : T o) :
    whB2RSpec eta ot es (τ o) c
      = rwLearn (fun _ => (1 : R)) eta eta 1 (fun _ _ => 0) es o c := by
  have hnd : ∀ e ∈ es, (e.outcomes.map τ).count (τ o) ≤ 1 := by
    intro e he
    have : (e.outcomes.map τ).Nodup :=
      List.Nodup.map_on (fun x hx y hy h => hinj x y (hT e he x hx) (hT e he y hy) h) (hu e he)
    exact List.nodup_iff_count_le_one.mp this (τ o)
  rw [whB2RSpec_onehot_renamed eta ot τ hoh es (fun e he o ho => hTn o (hT e he o ho)) (τ o)
    (hoh o (hTn o ho)).1 hnd]
  have hmap : renameOutcomes τ es
      = es.map (fun e => (⟨e.cues.map id, e.outcomes.map τ⟩ : Event String Nat)) := by
    unfold renameOutcomes
    simp only [List.map_id]
  rw [hmap]
  exact rwLearn_rename_on id τ (fun _ => True) T (fun a b _ _ h => h) hinj 1 eta eta 1
    (fun _ _ => 0) (fun _ _ => 0) es (fun e he => ⟨fun _ _ => trivial, hT e he⟩)
    (fun _ _ _ _ => rfl) o c ho trivial

/-- an outcome dimension that is the image of no outcome occurring in the
    events keeps the zero row (no uniqueness hypothesis needed) -/
theorem whB2RSpec_onehot_unused_dim (eta : R) (ot : VecTable R) (τ : String → Nat)
    (hoh : OneHotTable ot τ) (es : List (Event String String))
    (htab : ∀ e ∈ es, ∀ o ∈ e.outcomes, o ∈ ot.names) (d : Nat) (hd : d < ot.dims.length)
    (hk : ∀ e ∈ es, ∀ o ∈ e.outcomes, τ o ≠ d) (c : String) :
    whB2RSpec eta ot es d c = 0 := by
  have hnm : ∀ e ∈ es, d ∉ e.outcomes.map τ := by
    intro e he hm
    obtain ⟨o, ho, hod⟩ := List.mem_map.mp hm
    exact hk e he o ho hod
  rw [whB2RSpec_onehot_renamed eta ot τ hoh es htab d hd
    (fun e he => by rw [List.count_eq_zero_of_not_mem (hnm e he)]; omega)]
  rw [rwLearn_unseen_outcome _ _ _ _ _ _ d _ rfl]
  intro e he hde
  unfold renameOutcomes at he
  obtain ⟨e0, he0, rfl⟩ := List.mem_map.mp he
  exact hnm e0 he0 hde

/-! ## real cue vectors → real outcome vectors -/

/-- **real → real with both tables one-hot, whole event sequence, no
    injectivity needed** -/
theorem whR2RSpec_onehot_renamed (eta : R) (ct ot : VecTable R) (σ τ : String → Nat)
    (hohc : OneHotTable ct σ) (hoho : OneHotTable ot τ) (es : List (Event String String))
    (htabc : ∀ e ∈ es, ∀ c ∈ e.cues, c ∈ ct.names)
    (htabo : ∀ e ∈ es, ∀ o ∈ e.outcomes, o ∈ ot.names) (d : Nat) (hd : d < ot.dims.length)
    (hu : ∀ e ∈ es, (e.outcomes.map τ).count d ≤ 1) :
    whR2RSpec eta ct ot es d
      = rwLearn (fun _ => (1 : R)) eta eta 1 (fun _ _ => 0) (renameBoth σ τ es) d := by
  unfold whR2RSpec renameBoth
  have key : ∀ (es : List (Event String String)), (∀ e ∈ es, ∀ c ∈ e.cues, c ∈ ct.names) →
      (∀ e ∈ es, ∀ o ∈ e.outcomes, o ∈ ot.names) →
      (∀ e ∈ es, (e.outcomes.map τ).count d ≤ 1) →
      ∀ (r : Nat → R) (W : Nat → Nat → R), W d = r →
      es.foldl (fun r e => whRowReal ct.dims.length (tabInput ct e.cues)
        (fun a => eta * (tabInput ot e.outcomes d - a)) r) r
      = rwLearn (fun _ => (1 : R)) eta eta 1 W
          (es.map (fun e => (⟨e.cues.map σ, e.outcomes.map τ⟩ : Event Nat Nat))) d := by
    intro es
    induction es with
    | nil => intro _ _ _ r W hW; exact hW.symm
    | cons e es ih =>
      intro htabc htabo hu r W hW
      simp only [List.foldl_cons, List.map_cons, rwLearn_cons]
      refine ih (fun x hx => htabc x (by simp [hx])) (fun x hx => htabo x (by simp [hx]))
        (fun x hx => hu x (by simp [hx])) _ _ ?_
      have hcs : ∀ c ∈ e.cues.map σ, c < ct.dims.length := by
        intro c hc
        obtain ⟨c', hc', rfl⟩ := List.mem_map.mp hc
        exact (hohc c' (htabc e (by simp) c' hc')).1
      rw [whRowReal_eq_whRowBin ct.dims.length _ (e.cues.map σ) hcs
        (fun j hj => tabInput_onehot ct σ hohc e.cues (htabc e (by simp)) j hj),
        tabInput_onehot ot τ hoho e.outcomes (htabo e (by simp)) d hd,
        count_le_one_indicator _ d (hu e (by simp))]
      have := b2rStep_eq_rwRow eta r (e.cues.map σ) (d ∈ e.outcomes.map τ)
      simp only [rwStep, hW]
      rw [← this]
      rfl
  exact key es htabc htabo hu _ _ rfl

/-- **`whR2RSpec_onehot_eq_rw`** — real → real with both tables one-hot =
    Rescorla–Wagner ON NAMES, whole event sequence, η = β₁ = β₂, λ = 1.
    Hypotheses: those of `whR2BSpec_onehot_eq_rw` for the cue table and of
    `whB2RSpec_onehot_eq_rw` for the outcome table. -/
theorem whR2RSpec_onehot_eq_rw (eta : R) (ct ot : VecTable R) (σ τ : String → Nat)
    (hohc : OneHotTable ct σ) (hoho : OneHotTable ot τ)
    (S T : String → Prop) (hSn : ∀ c, S c → c ∈ ct.names) (hTn : ∀ o, T o → o ∈ ot.names)
    (hinjc : ∀ a b, S a → S b → σ a = σ b → a = b) (hinjo : ∀ a b, T a → T b → τ a = τ b → a = b)
    (es : List (Event String String)) (hS : ∀ e ∈ es, ∀ c ∈ e.cues, S c)
    (hT : ∀ e ∈ es, ∀ o ∈ e.outcomes, T o) (hu : ∀ e ∈ es, e.outcomes.Nodup)
    (o c : String) (ho : T o) (hc : S c) :
    whR2RSpec eta ct ot es (τ o) (σ c)
      = rwLearn (fun _ => (1 : R)) eta eta 1 (fun _ _ => 0) es o c := by
  have hnd : ∀ e ∈ es, (e.outcomes.map τ).count (τ o) ≤ 1 := by
    intro e he
    have : (e.outcomes.map τ).Nodup :=
      List.Nodup.map_on (fun x hx y hy h => hinjo x y (hT e he x hx) (hT e he y hy) h) (hu e he)
    exact List.nodup_iff_count_le_one.mp this (τ o)
  rw [whR2RSpec_onehot_renamed eta ct ot σ τ hohc hoho es (fun e he c hc => hSn c (hS e he c hc))
    (fun e he o ho => hTn o (hT e he o ho)) (τ o) (hoho o (hTn o ho)).1 hnd]
  unfold renameBoth
  exact rwLearn_rename_on σ τ S T hinjc hinjo 1 eta eta 1
    (fun _ _ => 0) (fun _ _ => 0) es (fun e he => ⟨hS e he, hT e he⟩)
    (fun _ _ _ _ => rfl) o c ho hc

/-- real → real: an unused cue dimension (image of no occurring cue) keeps weight 0
    in every row `d` in which the events name `d` at most once -/
theorem whR2RSpec_onehot_unused_cue_dim (eta : R) (ct ot : VecTable R) (σ τ : String → Nat)
    (hohc : OneHotTable ct σ) (hoho : OneHotTable ot τ) (es : List (Event String String))
    (htabc : ∀ e ∈ es, ∀ c ∈ e.cues, c ∈ ct.names)
    (htabo : ∀ e ∈ es, ∀ o ∈ e.outcomes, o ∈ ot.names) (d : Nat) (hd : d < ot.dims.length)
    (hu : ∀ e ∈ es, (e.outcomes.map τ).count d ≤ 1) (k : Nat)
    (hk : ∀ e ∈ es, ∀ c ∈ e.cues, σ c ≠ k) :
    whR2RSpec eta ct ot es d k = 0 := by
  rw [whR2RSpec_onehot_renamed eta ct ot σ τ hohc hoho es htabc htabo d hd hu, rwLearn_unseen_cue]
  intro e he hke
  unfold renameBoth at he
  obtain ⟨e0, he0, rfl⟩ := List.mem_map.mp he
  obtain ⟨c, hc, hck⟩ := List.mem_map.mp hke
  exact hk e0 he0 c hc hck

/-- real → real: an unused outcome dimension keeps the zero row -/
theorem whR2RSpec_onehot_unused_out_dim (eta : R) (ct ot : VecTable R) (σ τ : String → Nat)
    (hohc : OneHotTable ct σ) (hoho : OneHotTable ot τ) (es : List (Event String String))
    (htabc : ∀ e ∈ es, ∀ c ∈ e.cues, c ∈ ct.names)
    (htabo : ∀ e ∈ es, ∀ o ∈ e.outcomes, o ∈ ot.names) (d : Nat) (hd : d < ot.dims.length)
    (hk : ∀ e ∈ es, ∀ o ∈ e.outcomes, τ o ≠ d) (k : Nat) :
    whR2RSpec eta ct ot es d k = 0 := by
  have hnm : ∀ e ∈ es, d ∉ e.outcomes.map τ := by
    intro e he hm
    obtain ⟨o, ho, hod⟩ := List.mem_map.mp hm
    exact hk e he o ho hod
  rw [whR2RSpec_onehot_renamed eta ct ot σ τ hohc hoho es htabc htabo d hd
    (fun e he => by rw [List.count_eq_zero_of_not_mem (hnm e he)]; omega)]
  rw [rwLearn_unseen_outcome _ _ _ _ _ _ d _ rfl]
  intro e he hde
  unfold renameBoth at he
  obtain ⟨e0, he0, rfl⟩ := List.mem_map.mp he
  exact hnm e0 he0 hde

/-! ## the row order of a vector table is irrelevant -/

/-- two tables denote the same name → vector function: same dimension labels,
    same set of row labels, and the row labelled `c` holds the same vector in
    both — whatever the positions of the rows are (and whatever unused or
    shadowed rows hold). -/
def SameVectors (t t' : VecTable R) : Prop :=
  t'.dims = t.dims ∧ (∀ c, c ∈ t'.names ↔ c ∈ t.names) ∧
  ∀ c ∈ t.names, ∀ k, k < t.dims.length →
    t'.vals.getD (t'.dims.length * t'.names.idxOf c + k) 0
      = t.vals.getD (t.dims.length * t.names.idxOf c + k) 0

theorem tabInput_sameVectors (t t' : VecTable R) (h : SameVectors t t') (l : List String)
    (hl : ∀ c ∈ l, c ∈ t.names) (k : Nat) (hk : k < t.dims.length) :
    tabInput t' l k = tabInput t l k := by
  unfold tabInput
  congr 1
  apply List.map_congr_left
  intro c hc
  exact h.2.2 c (hl c hc) k hk

/-- one-hot tables with the same dimension map, the same dimension labels and
    the same set of row labels denote the same vectors — in particular a table
    and any copy of it whose rows (with their labels) were permuted -/
theorem sameVectors_of_onehot (t t' : VecTable R) (σ : String → Nat) (h : OneHotTable t σ)
    (h' : OneHotTable t' σ) (hd : t'.dims = t.dims) (hn : ∀ c, c ∈ t'.names ↔ c ∈ t.names) :
    SameVectors t t' := by
  refine ⟨hd, hn, ?_⟩
  intro c hc k hk
  rw [(h c hc).2 k hk, (h' c ((hn c).mpr hc)).2 k (by rw [hd]; exact hk)]

theorem whR2BSpec_sameVectors (β₁ β₂ lam : R) (ct ct' : VecTable R) (h : SameVectors ct ct')
    (es : List (Event String String)) (htab : ∀ e ∈ es, ∀ c ∈ e.cues, c ∈ ct.names) (o : String) :
    whR2BSpec β₁ β₂ lam ct' es o = whR2BSpec β₁ β₂ lam ct es o := by
  unfold whR2BSpec
  rw [h.1]
  refine foldl_congr_mem _ _ es ?_ _
  intro r e he
  exact whRowReal_congr _ _ _ (fun j hj => tabInput_sameVectors ct ct' h e.cues (htab e he) j hj) _ _

theorem whB2RSpec_sameVectors (eta : R) (ot ot' : VecTable R) (h : SameVectors ot ot')
    (es : List (Event String String)) (htab : ∀ e ∈ es, ∀ o ∈ e.outcomes, o ∈ ot.names)
    (d : Nat) (hd : d < ot.dims.length) :
    whB2RSpec eta ot' es d = whB2RSpec eta ot es d := by
  unfold whB2RSpec
  refine foldl_congr_mem _ _ es ?_ _
  intro r e he
  rw [tabInput_sameVectors ot ot' h e.outcomes (htab e he) d hd]

theorem whR2RSpec_sameVectors (eta : R) (ct ct' ot ot' : VecTable R) (hc : SameVectors ct ct')
    (ho : SameVectors ot ot') (es : List (Event String String))
    (htabc : ∀ e ∈ es, ∀ c ∈ e.cues, c ∈ ct.names) (htabo : ∀ e ∈ es, ∀ o ∈ e.outcomes, o ∈ ot.names)
    (d : Nat) (hd : d < ot.dims.length) :
    whR2RSpec eta ct' ot' es d = whR2RSpec eta ct ot es d := by
  unfold whR2RSpec
  rw [hc.1]
  refine foldl_congr_mem _ _ es ?_ _
  intro r e he
  rw [tabInput_sameVectors ot ot' ho e.outcomes (htabo e he) d hd]
  exact whRowReal_congr _ _ _ (fun j hj => tabInput_sameVectors ct ct' hc e.cues (htabc e he) j hj) _ _

/-- a row-major matrix is determined by its cells -/
theorem array_eq_of_cells (a b : Array R) (rows cols : Nat) (ha : a.size = cols * rows)
    (hb : b.size = cols * rows)
    (h : ∀ i, i < rows → ∀ j, j < cols → a.getD (i * cols + j) 0 = b.getD (i * cols + j) 0) : a = b := by
  apply Array.ext (ha.trans hb.symm)
  intro i h1 h2
  have hi : i < cols * rows := ha ▸ h1
  have hpos : 0 < cols := by
    rcases Nat.eq_zero_or_pos cols with h0 | h0
    · subst h0; simp at hi
    · exact h0
  have hdiv : i / cols < rows := (Nat.div_lt_iff_lt_mul hpos).mpr (by rwa [Nat.mul_comm] at hi)
  have hmod : i % cols < cols := Nat.mod_lt _ hpos
  have hcell := h _ hdiv _ hmod
  have hidx : i / cols * cols + i % cols = i := Nat.div_add_mod' i cols
  rw [hidx] at hcell
  simpa [Array.getD_eq_getD_getElem?, h1, h2] using hcell

/-- policy-processed events mention only names of the original events
    (one-sided versions used below) -/
theorem applyPolicyAll_cues (p : DupPolicy) (es es' : List (Event String String))
    (hp : applyPolicyAll p es = some es') (S : String → Prop) (hcs : ∀ e ∈ es, ∀ c ∈ e.cues, S c) :
    ∀ e ∈ es', ∀ c ∈ e.cues, S c :=
  fun e he => (applyPolicyAll_names p es es' hp S (fun _ => True) hcs (fun _ _ _ _ => trivial) e he).1

theorem applyPolicyAll_outcomes (p : DupPolicy) (es es' : List (Event String String))
    (hp : applyPolicyAll p es = some es') (T : String → Prop) (hos : ∀ e ∈ es, ∀ o ∈ e.outcomes, T o) :
    ∀ e ∈ es', ∀ o ∈ e.outcomes, T o :=
  fun e he => (applyPolicyAll_names p es es' hp (fun _ => True) T (fun _ _ _ _ => trivial) hos e he).2

/-- **`table_row_order_irrelevant`, real → binary, on the whole model**: if the
    call with cue table `ct` passes its checks (`htab`, `hp`, `hc` as in
    `whModel_r2b_eq_spec_names`), the call with ANY table `ct'` that denotes the
    same vectors (e.g. the rows of `ct` with their labels in another order)
    returns THE SAME labelled matrix. -/
theorem whModel_r2b_sameVectors (p : DupPolicy) (eta β₁ β₂ lam : R) (ct ct' : VecTable R)
    (h : SameVectors ct ct') (chunk : Nat) (hc : 1 ≤ chunk) (es es' : List (Event String String))
    (htab : ∀ e ∈ es, ∀ c ∈ e.cues, c ∈ ct.names) (hp : applyPolicyAll p es = some es') :
    whModel .r2b p eta β₁ β₂ lam (some ct') none chunk none es
      = whModel .r2b p eta β₁ β₂ lam (some ct) none chunk none es := by
  have htab' : ∀ e ∈ es, ∀ c ∈ e.cues, c ∈ ct'.names := fun e he c hc => (h.2.1 c).mpr (htab e he c hc)
  obtain ⟨w, h1, h2, h3, h4, h5⟩ := whModel_r2b_eq_spec_names p eta β₁ β₂ lam ct chunk hc es es' htab hp
  obtain ⟨w', h1', h2', h3', h4', h5'⟩ := whModel_r2b_eq_spec_names p eta β₁ β₂ lam ct' chunk hc es es' htab' hp
  rw [h1, h1']
  congr 1
  have hes' := applyPolicyAll_cues p es es' hp (· ∈ ct.names) htab
  have hnd : (countNames es).2.Nodup := nodup_dedupKeepFirst _
  have hv : w'.vals = w.vals := by
    rw [h.1] at h4' h5'
    apply array_eq_of_cells w'.vals w.vals (countNames es).2.length ct.dims.length h4' h4
    intro i hi k hk
    have hio : (countNames es).2.idxOf (countNames es).2[i] = i := List.Nodup.idxOf_getElem hnd i hi
    have a := h5 _ (List.getElem_mem hi) k hk
    have b := h5' _ (List.getElem_mem hi) k hk
    rw [hio] at a b
    rw [a, b, whR2BSpec_sameVectors β₁ β₂ lam ct ct' h es' hes']
  cases w with
  | mk wo wc wv =>
    cases w' with
    | mk wo' wc' wv' =>
      simp only at h2 h3 h2' h3' hv
      rw [h2, h3, h2', h3', hv, h.1]

/-- **`table_row_order_irrelevant`, binary → real, on the whole model** -/
theorem whModel_b2r_sameVectors (p : DupPolicy) (eta β₁ β₂ lam : R) (ot ot' : VecTable R)
    (h : SameVectors ot ot') (chunk : Nat) (hc : 1 ≤ chunk) (es es' : List (Event String String))
    (htab : ∀ e ∈ es, ∀ o ∈ e.outcomes, o ∈ ot.names) (hp : applyPolicyAll p es = some es') :
    whModel .b2r p eta β₁ β₂ lam none (some ot') chunk none es
      = whModel .b2r p eta β₁ β₂ lam none (some ot) chunk none es := by
  have htab' : ∀ e ∈ es, ∀ o ∈ e.outcomes, o ∈ ot'.names := fun e he o ho => (h.2.1 o).mpr (htab e he o ho)
  obtain ⟨w, h1, h2, h3, h4, h5⟩ := whModel_b2r_eq_spec_names p eta β₁ β₂ lam ot chunk hc es es' htab hp
  obtain ⟨w', h1', h2', h3', h4', h5'⟩ := whModel_b2r_eq_spec_names p eta β₁ β₂ lam ot' chunk hc es es' htab' hp
  rw [h1, h1']
  congr 1
  have hes' := applyPolicyAll_outcomes p es es' hp (· ∈ ot.names) htab
  have hnd : (countNames es).1.Nodup := nodup_dedupKeepFirst _
  have hv : w'.vals = w.vals := by
    rw [h.1] at h4' h5'
    apply array_eq_of_cells w'.vals w.vals ot.dims.length (countNames es).1.length h4' h4
    intro d hd j hj
    have hjc : (countNames es).1.idxOf (countNames es).1[j] = j := List.Nodup.idxOf_getElem hnd j hj
    have a := h5 d hd _ (List.getElem_mem hj)
    have b := h5' d hd _ (List.getElem_mem hj)
    rw [hjc] at a b
    rw [a, b, whB2RSpec_sameVectors eta ot ot' h es' hes' d hd]
  cases w with
  | mk wo wc wv =>
    cases w' with
    | mk wo' wc' wv' =>
      simp only at h2 h3 h2' h3' hv
      rw [h2, h3, h2', h3', hv, h.1]

/-- **`table_row_order_irrelevant`, real → real, on the whole model** (both tables) -/
theorem whModel_r2r_sameVectors (p : DupPolicy) (eta β₁ β₂ lam : R) (ct ct' ot ot' : VecTable R)
    (hcv : SameVectors ct ct') (hov : SameVectors ot ot') (chunk : Nat) (hc : 1 ≤ chunk)
    (es es' : List (Event String String))
    (htabc : ∀ e ∈ es, ∀ c ∈ e.cues, c ∈ ct.names) (htabo : ∀ e ∈ es, ∀ o ∈ e.outcomes, o ∈ ot.names)
    (hp : applyPolicyAll p es = some es') :
    whModel .r2r p eta β₁ β₂ lam (some ct') (some ot') chunk none es
      = whModel .r2r p eta β₁ β₂ lam (some ct) (some ot) chunk none es := by
  have htabc' : ∀ e ∈ es, ∀ c ∈ e.cues, c ∈ ct'.names := fun e he c hc => (hcv.2.1 c).mpr (htabc e he c hc)
  have htabo' : ∀ e ∈ es, ∀ o ∈ e.outcomes, o ∈ ot'.names := fun e he o ho => (hov.2.1 o).mpr (htabo e he o ho)
  obtain ⟨w, h1, h2, h3, h4, h5⟩ :=
    whModel_r2r_eq_spec_names p eta β₁ β₂ lam ct ot chunk hc es es' htabc htabo hp
  obtain ⟨w', h1', h2', h3', h4', h5'⟩ :=
    whModel_r2r_eq_spec_names p eta β₁ β₂ lam ct' ot' chunk hc es es' htabc' htabo' hp
  rw [h1, h1']
  congr 1
  have hesc := applyPolicyAll_cues p es es' hp (· ∈ ct.names) htabc
  have heso := applyPolicyAll_outcomes p es es' hp (· ∈ ot.names) htabo
  have hv : w'.vals = w.vals := by
    rw [hcv.1, hov.1] at h4' h5'
    apply array_eq_of_cells w'.vals w.vals ot.dims.length ct.dims.length h4' h4
    intro d hd k hk
    rw [h5 d hd k hk, h5' d hd k hk, whR2RSpec_sameVectors eta ct ct' ot ot' hcv hov es' hesc heso d hd]
  cases w with
  | mk wo wc wv =>
    cases w' with
    | mk wo' wc' wv' =>
      simp only at h2 h3 h2' h3' hv
      rw [h2, h3, h2', h3', hv, hcv.1, hov.1]

/-! ### … without any success hypothesis: the error cases coincide too -/

theorem whModel_b2r_chunkError (p : DupPolicy) (eta β₁ β₂ lam : R) (ot : VecTable R)
    (es : List (Event String String)) (ids' : List (Event Nat Nat))
    (htabo : ∀ e ∈ es, ∀ o ∈ e.outcomes, o ∈ ot.names)
    (hp : applyPolicyIds p (es.map (toIds (countNames es).1 ot.names)) = .ok ids') :
    whModel .b2r p eta β₁ β₂ lam none (some ot) 0 none es = .error .other := by
  have hchko := (tableCheck_outcomes_iff ot.names es).mpr htabo
  rcases hcn : countNames es with ⟨cuesEv, outs⟩
  rw [hcn] at hchko hp
  simp only at hchko hp
  unfold whModel
  rw [hcn]
  simp only [hchko, hp, if_false, Bool.false_eq_true, Nat.lt_one_iff, if_true]

theorem whModel_r2r_chunkError (p : DupPolicy) (eta β₁ β₂ lam : R) (ct ot : VecTable R)
    (es : List (Event String String)) (ids' : List (Event Nat Nat))
    (htabc : ∀ e ∈ es, ∀ c ∈ e.cues, c ∈ ct.names)
    (htabo : ∀ e ∈ es, ∀ o ∈ e.outcomes, o ∈ ot.names)
    (hp : applyPolicyIds p (es.map (toIds ct.names ot.names)) = .ok ids') :
    whModel .r2r p eta β₁ β₂ lam (some ct) (some ot) 0 none es = .error .other := by
  have hchkc := (tableCheck_cues_iff ct.names es).mpr htabc
  have hchko := (tableCheck_outcomes_iff ot.names es).mpr htabo
  rcases hcn : countNames es with ⟨cuesEv, outs⟩
  rw [hcn] at hchkc hchko
  simp only at hchkc hchko
  unfold whModel
  rw [hcn]
  simp only [hchkc, hchko, hp, if_false, Bool.false_eq_true, Nat.lt_one_iff, if_true]

theorem exists_bad_of_not_forall (names : List String) (es : List (Event String String))
    (proj : Event String String → List String)
    (h : ¬ ∀ e ∈ es, ∀ c ∈ proj e, c ∈ names) : ∃ e ∈ es, ∃ c ∈ proj e, c ∉ names := by
  apply Classical.byContradiction
  intro hne
  apply h
  intro e he c hc
  apply Classical.byContradiction
  intro hcn
  exact hne ⟨e, he, c, hc, hcn⟩

/-- **`table_row_order_irrelevant` (real → binary), unconditionally**: for EVERY
    event list, duplicate policy and `n_outcomes_per_job`, a call started from
    scratch returns the same result — the same labelled matrix or the same
    error — for any two cue tables that denote the same vectors. -/
theorem whModel_r2b_table_order (p : DupPolicy) (eta β₁ β₂ lam : R) (ct ct' : VecTable R)
    (h : SameVectors ct ct') (chunk : Nat) (es : List (Event String String)) :
    whModel .r2b p eta β₁ β₂ lam (some ct') none chunk none es
      = whModel .r2b p eta β₁ β₂ lam (some ct) none chunk none es := by
  by_cases htab : ∀ e ∈ es, ∀ c ∈ e.cues, c ∈ ct.names
  · have htab' : ∀ e ∈ es, ∀ c ∈ e.cues, c ∈ ct'.names := fun e he c hc => (h.2.1 c).mpr (htab e he c hc)
    have hos : ∀ e ∈ es, ∀ o ∈ e.outcomes, o ∈ (countNames es).2 := fun e he => (countNames_mem es e he).2
    cases hp : applyPolicyAll p es with
    | none =>
      rw [whModel_r2b_policyError_names p eta β₁ β₂ lam ct chunk es htab hp,
        whModel_r2b_policyError_names p eta β₁ β₂ lam ct' chunk es htab' hp]
    | some es' =>
      rcases Nat.eq_zero_or_pos chunk with h0 | h0
      · subst h0
        rw [whModel_r2b_chunkError p eta β₁ β₂ lam ct es _ htab
            (applyPolicyIds_toIds p ct.names (countNames es).2 es es' htab hos hp),
          whModel_r2b_chunkError p eta β₁ β₂ lam ct' es _ htab'
            (applyPolicyIds_toIds p ct'.names (countNames es).2 es es' htab' hos hp)]
      · exact whModel_r2b_sameVectors p eta β₁ β₂ lam ct ct' h chunk h0 es es' htab hp
  · have hbad := exists_bad_of_not_forall ct.names es (·.cues) htab
    have hbad' : ∃ e ∈ es, ∃ c ∈ e.cues, c ∉ ct'.names := by
      obtain ⟨e, he, c, hc, hn⟩ := hbad
      exact ⟨e, he, c, hc, fun hm => hn ((h.2.1 c).mp hm)⟩
    rw [whModel_r2b_tableError p eta β₁ β₂ lam ct chunk none es hbad,
      whModel_r2b_tableError p eta β₁ β₂ lam ct' chunk none es hbad']

/-- **`table_row_order_irrelevant` (binary → real), unconditionally** -/
theorem whModel_b2r_table_order (p : DupPolicy) (eta β₁ β₂ lam : R) (ot ot' : VecTable R)
    (h : SameVectors ot ot') (chunk : Nat) (es : List (Event String String)) :
    whModel .b2r p eta β₁ β₂ lam none (some ot') chunk none es
      = whModel .b2r p eta β₁ β₂ lam none (some ot) chunk none es := by
  by_cases htab : ∀ e ∈ es, ∀ o ∈ e.outcomes, o ∈ ot.names
  · have htab' : ∀ e ∈ es, ∀ o ∈ e.outcomes, o ∈ ot'.names := fun e he o ho => (h.2.1 o).mpr (htab e he o ho)
    have hcs : ∀ e ∈ es, ∀ c ∈ e.cues, c ∈ (countNames es).1 := fun e he => (countNames_mem es e he).1
    cases hp : applyPolicyAll p es with
    | none =>
      rw [whModel_b2r_policyError_names p eta β₁ β₂ lam ot chunk es htab hp,
        whModel_b2r_policyError_names p eta β₁ β₂ lam ot' chunk es htab' hp]
    | some es' =>
      rcases Nat.eq_zero_or_pos chunk with h0 | h0
      · subst h0
        rw [whModel_b2r_chunkError p eta β₁ β₂ lam ot es _ htab
            (applyPolicyIds_toIds p (countNames es).1 ot.names es es' hcs htab hp),
          whModel_b2r_chunkError p eta β₁ β₂ lam ot' es _ htab'
            (applyPolicyIds_toIds p (countNames es).1 ot'.names es es' hcs htab' hp)]
      · exact whModel_b2r_sameVectors p eta β₁ β₂ lam ot ot' h chunk h0 es es' htab hp
  · have hbad := exists_bad_of_not_forall ot.names es (·.outcomes) htab
    have hbad' : ∃ e ∈ es, ∃ o ∈ e.outcomes, o ∉ ot'.names := by
      obtain ⟨e, he, o, ho, hn⟩ := hbad
      exact ⟨e, he, o, ho, fun hm => hn ((h.2.1 o).mp hm)⟩
    rw [whModel_b2r_tableError p eta β₁ β₂ lam ot chunk none es hbad,
      whModel_b2r_tableError p eta β₁ β₂ lam ot' chunk none es hbad']

/-- **`table_row_order_irrelevant` (real → real), unconditionally** -/
theorem whModel_r2r_table_order (p : DupPolicy) (eta β₁ β₂ lam : R) (ct ct' ot ot' : VecTable R)
    (hcv : SameVectors ct ct') (hov : SameVectors ot ot') (chunk : Nat) (es : List (Event String String)) :
    whModel .r2r p eta β₁ β₂ lam (some ct') (some ot') chunk none es
      = whModel .r2r p eta β₁ β₂ lam (some ct) (some ot) chunk none es := by
  by_cases htabc : ∀ e ∈ es, ∀ c ∈ e.cues, c ∈ ct.names
  · by_cases htabo : ∀ e ∈ es, ∀ o ∈ e.outcomes, o ∈ ot.names
    · have htabc' : ∀ e ∈ es, ∀ c ∈ e.cues, c ∈ ct'.names :=
        fun e he c hc => (hcv.2.1 c).mpr (htabc e he c hc)
      have htabo' : ∀ e ∈ es, ∀ o ∈ e.outcomes, o ∈ ot'.names :=
        fun e he o ho => (hov.2.1 o).mpr (htabo e he o ho)
      cases hp : applyPolicyAll p es with
      | none =>
        rw [whModel_r2r_policyError_names p eta β₁ β₂ lam ct ot chunk es htabc htabo hp,
          whModel_r2r_policyError_names p eta β₁ β₂ lam ct' ot' chunk es htabc' htabo' hp]
      | some es' =>
        rcases Nat.eq_zero_or_pos chunk with h0 | h0
        · subst h0
          rw [whModel_r2r_chunkError p eta β₁ β₂ lam ct ot es _ htabc htabo
              (applyPolicyIds_toIds p ct.names ot.names es es' htabc htabo hp),
            whModel_r2r_chunkError p eta β₁ β₂ lam ct' ot' es _ htabc' htabo'
              (applyPolicyIds_toIds p ct'.names ot'.names es es' htabc' htabo' hp)]
        · exact whModel_r2r_sameVectors p eta β₁ β₂ lam ct ct' ot ot' hcv hov chunk h0 es es' htabc htabo hp
    · have hbad := exists_bad_of_not_forall ot.names es (·.outcomes) htabo
      have hbad' : ∃ e ∈ es, ∃ o ∈ e.outcomes, o ∉ ot'.names := by
        obtain ⟨e, he, o, ho, hn⟩ := hbad
        exact ⟨e, he, o, ho, fun hm => hn ((hov.2.1 o).mp hm)⟩
      rw [whModel_r2r_tableError p eta β₁ β₂ lam ct ot chunk none es (Or.inr hbad),
        whModel_r2r_tableError p eta β₁ β₂ lam ct' ot' chunk none es (Or.inr hbad')]
  · have hbad := exists_bad_of_not_forall ct.names es (·.cues) htabc
    have hbad' : ∃ e ∈ es, ∃ c ∈ e.cues, c ∉ ct'.names := by
      obtain ⟨e, he, c, hc, hn⟩ := hbad
      exact ⟨e, he, c, hc, fun hm => hn ((hcv.2.1 c).mp hm)⟩
    rw [whModel_r2r_tableError p eta β₁ β₂ lam ct ot chunk none es (Or.inl hbad),
      whModel_r2r_tableError p eta β₁ β₂ lam ct' ot' chunk none es (Or.inl hbad')]

/-! ## reading the binary → real and real → real results through the labels -/

/-- a cue that occurs in no event keeps weight 0 under the binary → real rule -/
theorem whB2RSpec_unseen_cue (eta : R) (ot : VecTable R) (es : List (Event String String)) (d : Nat)
    (c : String) (h : ∀ e ∈ es, c ∉ e.cues) : whB2RSpec eta ot es d c = 0 := by
  unfold whB2RSpec
  have key : ∀ (es : List (Event String String)), (∀ e ∈ es, c ∉ e.cues) → ∀ (r : String → R), r c = 0 →
      (es.foldl (fun r e => fun c =>
        r c + (e.cues.count c : R) * (eta * (tabInput ot e.outcomes d - (e.cues.map r).sum))) r) c = 0 := by
    intro es
    induction es with
    | nil => intro _ r hr; exact hr
    | cons e es ih =>
      intro h r hr
      simp only [List.foldl_cons]
      refine ih (fun x hx => h x (by simp [hx])) _ ?_
      simp [hr, List.count_eq_zero_of_not_mem (h e (by simp))]
  exact key es h _ rfl

/-- **binary → real, read through the labels**: the returned labelled matrix read
    at EVERY (outcome-dimension label, cue name) is the specification (at the
    position of the label), and 0 for labels that are no outcome dimension. -/
theorem whModel_b2r_get (p : DupPolicy) (eta β₁ β₂ lam : R) (ot : VecTable R)
    (chunk : Nat) (hc : 1 ≤ chunk) (es es' : List (Event String String))
    (htabo : ∀ e ∈ es, ∀ o ∈ e.outcomes, o ∈ ot.names) (hp : applyPolicyAll p es = some es') :
    ∃ w, whModel .b2r p eta β₁ β₂ lam none (some ot) chunk none es = .ok w ∧
      ∀ dl c, w.get dl c = if dl ∈ ot.dims then whB2RSpec eta ot es' (ot.dims.idxOf dl) c else 0 := by
  obtain ⟨w, h1, h2, h3, _, h5⟩ := whModel_b2r_eq_spec_names p eta β₁ β₂ lam ot chunk hc es es' htabo hp
  refine ⟨w, h1, ?_⟩
  intro dl c
  by_cases hd : dl ∈ ot.dims
  · rw [if_pos hd]
    have hi : ot.dims.idxOf dl < ot.dims.length := List.idxOf_lt_length_iff.mpr hd
    by_cases hcm : c ∈ (countNames es).1
    · have hj : (countNames es).1.idxOf c < (countNames es).1.length := List.idxOf_lt_length_iff.mpr hcm
      rw [← h5 _ hi c hcm]
      unfold LW.get
      rw [h2, h3]
      simp only
      rw [if_pos ⟨hi, hj⟩]
    · rw [LW.get_not_cue w dl c (by rw [h3]; exact hcm)]
      have hes' := applyPolicyAll_cues p es es' hp (· ∈ (countNames es).1)
        (fun e he => (countNames_mem es e he).1)
      rw [whB2RSpec_unseen_cue eta ot es' _ c (fun e he hce => hcm (hes' e he c hce))]
  · rw [if_neg hd]
    exact LW.get_not_outcome w dl c (by rw [h2]; exact hd)

/-- **real → real, read through the labels** -/
theorem whModel_r2r_get (p : DupPolicy) (eta β₁ β₂ lam : R) (ct ot : VecTable R)
    (chunk : Nat) (hc : 1 ≤ chunk) (es es' : List (Event String String))
    (htabc : ∀ e ∈ es, ∀ c ∈ e.cues, c ∈ ct.names) (htabo : ∀ e ∈ es, ∀ o ∈ e.outcomes, o ∈ ot.names)
    (hp : applyPolicyAll p es = some es') :
    ∃ w, whModel .r2r p eta β₁ β₂ lam (some ct) (some ot) chunk none es = .ok w ∧
      ∀ dlo dlc, w.get dlo dlc = if dlo ∈ ot.dims ∧ dlc ∈ ct.dims
        then whR2RSpec eta ct ot es' (ot.dims.idxOf dlo) (ct.dims.idxOf dlc) else 0 := by
  obtain ⟨w, h1, h2, h3, _, h5⟩ :=
    whModel_r2r_eq_spec_names p eta β₁ β₂ lam ct ot chunk hc es es' htabc htabo hp
  refine ⟨w, h1, ?_⟩
  intro dlo dlc
  by_cases hd : dlo ∈ ot.dims
  · by_cases hk : dlc ∈ ct.dims
    · rw [if_pos ⟨hd, hk⟩]
      have hi : ot.dims.idxOf dlo < ot.dims.length := List.idxOf_lt_length_iff.mpr hd
      have hj : ct.dims.idxOf dlc < ct.dims.length := List.idxOf_lt_length_iff.mpr hk
      rw [← h5 _ hi _ hj]
      unfold LW.get
      rw [h2, h3]
      simp only
      rw [if_pos ⟨hi, hj⟩]
    · rw [if_neg (fun h => hk h.2)]
      exact LW.get_not_cue w dlo dlc (by rw [h3]; exact hk)
  · rw [if_neg (fun h => hd h.1)]
    exact LW.get_not_outcome w dlo dlc (by rw [h2]; exact hd)

/-! ## the duplicate policy and repeated outcomes -/

theorem nodup_of_hasDup_false {α : Type} [DecidableEq α] (l : List α) (h : hasDup l = false) : l.Nodup := by
  induction l with
  | nil => exact List.nodup_nil
  | cons x xs ih =>
    simp only [hasDup, Bool.or_eq_false_iff, decide_eq_false_iff_not] at h
    exact List.nodup_cons.mpr ⟨h.1, ih h.2⟩

/-- under `remove_duplicates=None` (accepted events) and `remove_duplicates=True`
    no outcome is repeated within a policy-processed event; only
    `remove_duplicates=False` can let a repeated outcome through -/
theorem applyPolicyAll_outcomes_nodup {ι κ : Type} [DecidableEq ι] [DecidableEq κ] (p : DupPolicy)
    (hk : p ≠ .keep) (es es' : List (Event ι κ)) (hp : applyPolicyAll p es = some es') :
    ∀ e ∈ es', e.outcomes.Nodup := by
  intro e' he'
  obtain ⟨e, _, hpe⟩ := applyPolicyAll_mem p es es' hp e' he'
  cases p with
  | error =>
    simp only [applyPolicy] at hpe
    split at hpe
    · cases hpe
    · rename_i hd
      cases hpe
      simp only [Bool.or_eq_true, not_or, Bool.not_eq_true] at hd
      exact nodup_of_hasDup_false _ hd.2
  | dedup =>
    simp only [applyPolicy, Option.some.injEq] at hpe
    subst hpe
    exact nodup_dedupKeepFirst _
  | keep => exact absurd rfl hk

/-! ## end to end: `wh.wh` with one-hot tables = `ndl.ndl` -/

/-- **`wh.wh` (real → binary) with a one-hot cue table = `ndl.ndl`, end to end.**

    Hypotheses — of `ndlCall_eq_spec` (C01): `hm`, `hv` (header constants fit 32
    bit), `hne` at least one event (on a file with ZERO events `ndl.ndl` raises
    `IOError` while `wh.wh` returns: the two calls do NOT agree there),
    `hcfg : CfgOK` (`2 ≤ events_per_temporary_file < 2³²`, `1 ≤ n_outcomes_per_job`,
    OpenMP: `n_outcomes_per_job < 2³²`, no wrap-around of the part bounds) of the `ndl.ndl` call, `hfit`
    (the 32-bit limits of the binary event format; `ndl.ndl` raises outside),
    `hp` the duplicate policy accepts the events;
    of `wh_r2b_end_to_end` (C08): `hc : 1 ≤ n_outcomes_per_job` of the `wh.wh`
    call, every cue has a row in the table (here: `hS`, `hSn`); and of C14:
    `hoh` the table is one-hot with dimension map `σ`, injective (`hinj`) on a
    set `S` of row labels containing the cues of the events.

    Conclusion: both calls succeed, and the Widrow–Hoff matrix read at
    (outcome `o`, dimension label `dl` at position `σ c`) equals the `ndl.ndl`
    matrix (α = 1, same β₁, β₂, λ; `wh.wh` passes β₁ = β₂ = η, λ = 1) read at
    (o, c) — for EVERY outcome name `o` and every cue `c ∈ S`; and a dimension
    label whose position is the image of no cue of the events reads 0. -/
theorem whModel_r2b_onehot_eq_ndl (magic version : Nat) (hm : magic < 4294967296) (hv : version < 4294967296)
    (cfg : NdlCfg) (eta β₁ β₂ lam : R)
    (ct : VecTable R) (σ : String → Nat) (chunk : Nat) (hc : 1 ≤ chunk)
    (es es' : List (Event String String)) (hne : es ≠ [])
    (hcfg : CfgOK cfg (countNames es).2.length)
    (hp : applyPolicyAll cfg.policy es = some es') (hfit : Fits32 es)
    (hoh : OneHotTable ct σ) (S : String → Prop) (hSn : ∀ c, S c → c ∈ ct.names)
    (hinj : ∀ a b, S a → S b → σ a = σ b → a = b) (hS : ∀ e ∈ es, ∀ c ∈ e.cues, S c) :
    ∃ w wn, whModel .r2b cfg.policy eta β₁ β₂ lam (some ct) none chunk none es = .ok w ∧
      ndlCall magic version cfg 1 β₁ β₂ lam none es = .ok (wn, es.length) ∧
      (∀ o c dl, S c → dl ∈ ct.dims → ct.dims.idxOf dl = σ c → w.get o dl = wn.get o c) ∧
      (∀ o dl, (∀ e ∈ es, ∀ c ∈ e.cues, σ c ≠ ct.dims.idxOf dl) → w.get o dl = 0) := by
  have htab : ∀ e ∈ es, ∀ c ∈ e.cues, c ∈ ct.names := fun e he c hc => hSn c (hS e he c hc)
  obtain ⟨w, hw, hget⟩ := whModel_r2b_get cfg.policy eta β₁ β₂ lam ct chunk hc es es' htab hp
  obtain ⟨wn, hwn, hgetn⟩ := ndlCall_eq_spec magic version hm hv cfg 1 β₁ β₂ lam es es' hne hcfg hp hfit
  have hS' := applyPolicyAll_cues cfg.policy es es' hp S hS
  have htab' := applyPolicyAll_cues cfg.policy es es' hp (· ∈ ct.names) htab
  refine ⟨w, wn, hw, hwn, ?_, ?_⟩
  · intro o c dl hSc hdl hidx
    rw [hget, if_pos hdl, hidx, hgetn]
    exact whR2BSpec_onehot_eq_rw β₁ β₂ lam ct σ hoh S hSn hinj es' hS' o c hSc
  · intro o dl hun
    rw [hget]
    split
    · apply whR2BSpec_onehot_unused_dim β₁ β₂ lam ct σ hoh es' htab' o
      exact applyPolicyAll_cues cfg.policy es es' hp (fun c => σ c ≠ ct.dims.idxOf dl) hun
    · rfl

/-- **`wh.wh` (binary → real) with a one-hot outcome table = `ndl.ndl`, end to
    end**, α = 1, β₁ = β₂ = η, λ = 1.  Hypotheses as in
    `whModel_r2b_onehot_eq_ndl`, with the outcome table in place of the cue
    table (`T`, `τ`), and `hu`: no outcome is repeated within a policy-processed
    event (see `applyPolicyAll_outcomes_nodup`: automatic unless
    `remove_duplicates=False`).  Conclusion: the Widrow–Hoff matrix read at
    (dimension label at position `τ o`, cue `c`) equals the `ndl.ndl` matrix at
    (o, c), for every `o ∈ T` and EVERY cue name `c`; unused outcome dimensions
    read 0. -/
theorem whModel_b2r_onehot_eq_ndl (magic version : Nat) (hm : magic < 4294967296) (hv : version < 4294967296)
    (cfg : NdlCfg) (eta β₁ β₂ lam : R)
    (ot : VecTable R) (τ : String → Nat) (chunk : Nat) (hc : 1 ≤ chunk)
    (es es' : List (Event String String)) (hne : es ≠ [])
    (hcfg : CfgOK cfg (countNames es).2.length)
    (hp : applyPolicyAll cfg.policy es = some es') (hfit : Fits32 es)
    (hoh : OneHotTable ot τ) (T : String → Prop) (hTn : ∀ o, T o → o ∈ ot.names)
    (hinj : ∀ a b, T a → T b → τ a = τ b → a = b) (hT : ∀ e ∈ es, ∀ o ∈ e.outcomes, T o)
    (hu : ∀ e ∈ es', e.outcomes.Nodup) :
    ∃ w wn, whModel .b2r cfg.policy eta β₁ β₂ lam none (some ot) chunk none es = .ok w ∧
      ndlCall magic version cfg 1 eta eta 1 none es = .ok (wn, es.length) ∧
      (∀ o c dl, T o → dl ∈ ot.dims → ot.dims.idxOf dl = τ o → w.get dl c = wn.get o c) ∧
      (∀ dl c, (∀ e ∈ es, ∀ o ∈ e.outcomes, τ o ≠ ot.dims.idxOf dl) → w.get dl c = 0) := by
  have htab : ∀ e ∈ es, ∀ o ∈ e.outcomes, o ∈ ot.names := fun e he o ho => hTn o (hT e he o ho)
  obtain ⟨w, hw, hget⟩ := whModel_b2r_get cfg.policy eta β₁ β₂ lam ot chunk hc es es' htab hp
  obtain ⟨wn, hwn, hgetn⟩ := ndlCall_eq_spec magic version hm hv cfg 1 eta eta 1 es es' hne hcfg hp hfit
  have hT' := applyPolicyAll_outcomes cfg.policy es es' hp T hT
  have htab' := applyPolicyAll_outcomes cfg.policy es es' hp (· ∈ ot.names) htab
  refine ⟨w, wn, hw, hwn, ?_, ?_⟩
  · intro o c dl hTo hdl hidx
    rw [hget, if_pos hdl, hidx, hgetn]
    exact whB2RSpec_onehot_eq_rw eta ot τ hoh T hTn hinj es' hT' hu o c hTo
  · intro dl c hun
    rw [hget]
    split
    · rename_i hdl
      apply whB2RSpec_onehot_unused_dim eta ot τ hoh es' htab' _ (List.idxOf_lt_length_iff.mpr hdl)
      exact applyPolicyAll_outcomes cfg.policy es es' hp (fun o => τ o ≠ ot.dims.idxOf dl) hun
    · rfl

/-- **`wh.wh` (real → real) with both tables one-hot = `ndl.ndl`, end to end**,
    α = 1, β₁ = β₂ = η, λ = 1: the Widrow–Hoff matrix read at (dimension label
    at position `τ o`, dimension label at position `σ c`) equals the `ndl.ndl`
    matrix at (o, c) for every `o ∈ T`, `c ∈ S`. -/
theorem whModel_r2r_onehot_eq_ndl (magic version : Nat) (hm : magic < 4294967296) (hv : version < 4294967296)
    (cfg : NdlCfg) (eta β₁ β₂ lam : R)
    (ct ot : VecTable R) (σ τ : String → Nat) (chunk : Nat) (hc : 1 ≤ chunk)
    (es es' : List (Event String String)) (hne : es ≠ [])
    (hcfg : CfgOK cfg (countNames es).2.length)
    (hp : applyPolicyAll cfg.policy es = some es') (hfit : Fits32 es)
    (hohc : OneHotTable ct σ) (hoho : OneHotTable ot τ)
    (S T : String → Prop) (hSn : ∀ c, S c → c ∈ ct.names) (hTn : ∀ o, T o → o ∈ ot.names)
    (hinjc : ∀ a b, S a → S b → σ a = σ b → a = b) (hinjo : ∀ a b, T a → T b → τ a = τ b → a = b)
    (hS : ∀ e ∈ es, ∀ c ∈ e.cues, S c) (hT : ∀ e ∈ es, ∀ o ∈ e.outcomes, T o)
    (hu : ∀ e ∈ es', e.outcomes.Nodup) :
    ∃ w wn, whModel .r2r cfg.policy eta β₁ β₂ lam (some ct) (some ot) chunk none es = .ok w ∧
      ndlCall magic version cfg 1 eta eta 1 none es = .ok (wn, es.length) ∧
      (∀ o c dlo dlc, T o → S c → dlo ∈ ot.dims → ot.dims.idxOf dlo = τ o →
        dlc ∈ ct.dims → ct.dims.idxOf dlc = σ c → w.get dlo dlc = wn.get o c) := by
  have htabc : ∀ e ∈ es, ∀ c ∈ e.cues, c ∈ ct.names := fun e he c hc => hSn c (hS e he c hc)
  have htabo : ∀ e ∈ es, ∀ o ∈ e.outcomes, o ∈ ot.names := fun e he o ho => hTn o (hT e he o ho)
  obtain ⟨w, hw, hget⟩ := whModel_r2r_get cfg.policy eta β₁ β₂ lam ct ot chunk hc es es' htabc htabo hp
  obtain ⟨wn, hwn, hgetn⟩ := ndlCall_eq_spec magic version hm hv cfg 1 eta eta 1 es es' hne hcfg hp hfit
  have hS' := applyPolicyAll_cues cfg.policy es es' hp S hS
  have hT' := applyPolicyAll_outcomes cfg.policy es es' hp T hT
  refine ⟨w, wn, hw, hwn, ?_⟩
  intro o c dlo dlc hTo hSc hdlo hio hdlc hic
  rw [hget, if_pos ⟨hdlo, hdlc⟩, hio, hic, hgetn]
  exact whR2RSpec_onehot_eq_rw eta ct ot σ τ hohc hoho S T hSn hTn hinjc hinjo es' hS' hT' hu o c hTo hSc

end Pyndl
