import PyndlProofs.Schedule

set_option linter.unusedSectionVars false
set_option linter.unusedSimpArgs false
set_option linter.unusedVariables false

namespace Pyndl
open List

/-- operational definition: `s` is produced by repeatedly executing the next
    step of some thread's remaining program until all programs are exhausted -/
inductive Interleave {α : Type} : List (List α) → List α → Prop
  | done {ps : List (List α)} : (∀ p ∈ ps, p = []) → Interleave ps []
  | step {ps : List (List α)} (i : Nat) (a : α) (rest : List α) (s : List α) :
      ps[i]? = some (a :: rest) → Interleave (ps.set i rest) s → Interleave ps (a :: s)

/-- an interleaving of tagged sequential programs projects back onto each
    program: filtering by tag `k` gives program `k` -/
theorem interleave_filter {α : Type} (tag : α → Nat) (ps : List (List α)) (s : List α)
    (htag : ∀ k p, ps[k]? = some p → ∀ a ∈ p, tag a = k) (h : Interleave ps s) :
    (∀ a ∈ s, tag a < ps.length) ∧ ∀ k, k < ps.length → s.filter (fun a => tag a = k) = ps.getD k [] := by
  induction h with
  | @done ps hall =>
    refine ⟨by simp, ?_⟩
    intro k hk
    have : ps.getD k [] = [] := by
      rw [List.getD_eq_getElem?_getD, List.getElem?_eq_getElem hk]
      exact hall _ (List.getElem_mem hk)
    rw [this]; exact List.filter_nil
  | @step ps i a rest s hi hrest ih =>
    have hilt : i < ps.length := by
      by_contra hn
      rw [List.getElem?_eq_none (by omega)] at hi; cases hi
    have htag' : ∀ k p, (ps.set i rest)[k]? = some p → ∀ b ∈ p, tag b = k := by
      intro k p hp b hb
      by_cases hki : i = k
      · subst hki
        rw [List.getElem?_set_self hilt] at hp
        simp only [Option.some.injEq] at hp; subst hp
        exact htag i _ hi b (by simp [hb])
      · rw [List.getElem?_set_ne hki] at hp
        exact htag k p hp b hb
    obtain ⟨ih1, ih2⟩ := ih htag'
    have hta : tag a = i := htag i _ hi a (by simp)
    simp only [List.length_set] at ih1 ih2
    refine ⟨?_, ?_⟩
    · intro b hb
      simp only [List.mem_cons] at hb
      rcases hb with rfl | hb
      · rw [hta]; exact hilt
      · exact ih1 b hb
    · intro k hk
      by_cases hki : i = k
      · subst hki
        simp only [List.filter_cons, hta, decide_true, if_true, ih2 i hk]
        rw [List.getD_eq_getElem?_getD, List.getElem?_set_self hilt,
          List.getD_eq_getElem?_getD, hi]
        rfl
      · have : ¬ tag a = k := by rw [hta]; exact hki
        simp only [List.filter_cons, this, decide_false, Bool.false_eq_true, if_false, ih2 k hk]
        rw [List.getD_eq_getElem?_getD, List.getElem?_set_ne hki, ← List.getD_eq_getElem?_getD]

/-- the part programs of `method='threading'`, one per part -/
def threadingPrograms (parts : List (List Nat)) (files : List (List (Event Nat Nat))) : List (List MicroStep) :=
  (List.range parts.length).map (fun k => partProgram k (parts.getD k []) files)

/-- **every operational interleaving of the part programs is a valid schedule**
    in the sense of `ValidThreading` — so `schedule_independent_threading`
    really speaks about every interleaving of the kernel calls. -/
theorem interleave_is_valid_threading (parts : List (List Nat)) (files : List (List (Event Nat Nat)))
    (s : List MicroStep) (h : Interleave (threadingPrograms parts files) s) :
    ValidThreading parts files s := by
  have hlen : (threadingPrograms parts files).length = parts.length := by simp [threadingPrograms]
  have htag : ∀ k (p : List MicroStep), (threadingPrograms parts files)[k]? = some p →
      ∀ a ∈ p, MicroStep.part a = k := by
    intro k p hp a ha
    unfold threadingPrograms at hp
    rw [List.getElem?_map] at hp
    cases hr : (List.range parts.length)[k]? with
    | none => rw [hr] at hp; cases hp
    | some k' =>
      rw [hr] at hp
      simp only [Option.map_some, Option.some.injEq] at hp
      have hk' : k' = k := by
        have hklt : k < parts.length := by
          by_contra hn
          have : (List.range parts.length)[k]? = none := List.getElem?_eq_none (by simp; omega)
          rw [this] at hr; cases hr
        rw [List.getElem?_range hklt] at hr
        exact (Option.some.inj hr).symm
      subst hk' hp
      exact (partProgramFrom_mem _ _ _ _ a ha).1
  obtain ⟨h1, h2⟩ := interleave_filter (fun st => st.part) _ s htag h
  refine ⟨fun st hst => by have := h1 st hst; omega, ?_⟩
  intro k hk
  rw [h2 k (by omega)]
  unfold threadingPrograms
  rw [List.getD_eq_getElem?_getD, List.getElem?_map, List.getElem?_range hk]
  rfl

end Pyndl
